"""CLI:  python -m vk.runner <Cxx> <quick|thorough> [--replay file] [--clause name] [--scale f]

Exit 0: property held on everything explored (open known findings printed as KNOWN-FINDING).
Exit 1: at least one unlisted violation; each printed as `VIOLATION property=Cxx replay=<path>`.
Exit 2: harness error (never dressed up as a violation).
"""
import argparse
import importlib
import json
import multiprocessing as mp
import os
import subprocess
import sys
import time
import traceback

from . import core
from .core import ROOT

QUICK_WALL = float(os.environ.get("VK_QUICK_WALL", "240"))
THOROUGH_WALL = float(os.environ.get("VK_THOROUGH_WALL", "2400"))


def load_module(prop):
    return importlib.import_module("vk.props.%s" % prop.lower())


def load_findings(prop, mod):
    path = os.path.join(ROOT, "known_findings.json")
    if not os.path.exists(path):
        return []
    with open(path) as f:
        allf = json.load(f)["findings"]
    preds = getattr(mod, "PREDICATES", {})
    out = []
    for f in allf:
        if f.get("property") != prop:
            continue
        f = dict(f)
        if f.get("status") == "open":
            p = preds.get(f.get("predicate"))
            if p is None:
                raise core.HarnessError("open finding %s names unknown predicate %r" % (f["id"], f.get("predicate")))
            f["_pred"] = p
        out.append(f)
    return out


def get_clauses(mod):
    cl = mod.clauses()
    names = [c.name for c in cl]
    assert len(set(names)) == len(names), names
    return cl


def _work(args):
    prop, cname, n, seed, deadline, shrink_kind = args
    try:
        import io
        sys.stdout = io.StringIO()      # kawin prints from library code (e.g. temperature arrays); keep workers quiet
        core.use_repo()
        mod = load_module(prop)
        findings = load_findings(prop, mod)
        clause = [c for c in get_clauses(mod) if c.name == cname][0]
        res, last = core.drive(clause, n, seed, findings, deadline, shrink_kind)
        d = res.to_dict()
        d["last_fail"] = last
        d["clause"] = cname
        d["seed"] = seed
        d["n"] = n
        return d
    except Exception as e:
        return {"clause": cname, "seed": seed, "n": n, "fatal": repr(e), "tb": traceback.format_exc()[-4000:]}


def kawin_rev():
    try:
        r = subprocess.run(["git", "-C", core.KAWIN_SRC, "rev-parse", "--short", "HEAD"], capture_output=True, text=True, timeout=10)
        d = subprocess.run(["git", "-C", core.KAWIN_SRC, "status", "--porcelain", "--untracked-files=no"], capture_output=True, text=True, timeout=10)
        return r.stdout.strip() + ("+dirty" if d.stdout.strip() else "")
    except Exception:
        return "unknown"


def write_replay(prop, clause, case, viol, seed, tier, sub="", note=None):
    base = os.environ.get("VK_REPLAY_DIR") or os.path.join(ROOT, "replays")      # VK_REPLAY_DIR: sensitivity runs keep their replays out of the tree
    d = os.path.join(base, sub) if sub else base
    os.makedirs(d, exist_ok=True)
    h = core.case_hash([clause, case])[:12]
    path = os.path.join(d, "%s-%s-%s-%s.json" % (prop, clause, __import__("re").sub(r"[^A-Za-z0-9_.-]", "_", viol["kind"])[:48], h))
    with open(path, "w") as f:
        json.dump({"property": prop, "clause": clause, "case": core.jsonable(case), "violations": [viol],
                   "seed": seed, "tier": tier, "kawin_rev": kawin_rev(), "note": note}, f, indent=1, sort_keys=True)
    return path


def replay_file(prop, mod, findings, path, quiet=False):
    """Run check_case on a stored replay; return list of unlisted violations."""
    with open(path) as f:
        rp = json.load(f)
    if rp.get("property") != prop:
        raise core.HarnessError("replay %s belongs to %s" % (path, rp.get("property")))
    clause = [c for c in get_clauses(mod) if c.name == rp["clause"]]
    if not clause:
        raise core.HarnessError("replay %s names unknown clause %s" % (path, rp["clause"]))
    res = core.ShardResult()
    fresh = core.run_case(clause[0], rp["case"], findings, res)
    if res.harness_errors:
        raise core.HarnessError("replay %s: %s\n%s" % (path, res.harness_errors[0]["error"], res.harness_errors[0]["tb"]))
    return fresh, res


def main(argv=None):
    ap = argparse.ArgumentParser()
    ap.add_argument("prop")
    ap.add_argument("tier", choices=["quick", "thorough"], nargs="?", default=os.environ.get("VERIF_TIER", "quick"))
    ap.add_argument("--replay")
    ap.add_argument("--clause", action="append")
    ap.add_argument("--scale", type=float, default=float(os.environ.get("VK_SCALE", "1")))
    ap.add_argument("--jobs", type=int, default=int(os.environ.get("VK_JOBS", str(os.cpu_count() or 4))))
    ap.add_argument("--no-evidence", action="store_true")
    a = ap.parse_args(argv)
    prop = a.prop.upper()
    seed = int(os.environ.get("VERIF_SEED", "1"))
    t0 = time.time()
    try:
        core.use_repo()
        mod = load_module(prop)
        findings = load_findings(prop, mod)
        clauses = get_clauses(mod)
    except Exception:
        traceback.print_exc()
        print("HARNESS-ERROR property=%s (setup)" % prop)
        return 2

    if a.replay:
        try:
            fresh, res = replay_file(prop, mod, findings, a.replay)
        except Exception:
            traceback.print_exc()
            return 2
        for v in fresh:
            print("  %s: %s" % (v["kind"], v["msg"]))
        if res.kf_hits:
            print("KNOWN-FINDING: property=%s replay reproduces listed finding(s) %s" % (prop, sorted(res.kf_hits)))
        if fresh:
            print("VIOLATION property=%s replay=%s" % (prop, os.path.abspath(a.replay)))
            return 1
        print("replay holds: property=%s %s" % (prop, a.replay))
        return 0

    if a.clause:
        unknown = [n for n in a.clause if n not in [c.name for c in clauses]]
        if unknown:
            print("HARNESS-ERROR property=%s unknown clause %s (have: %s)" % (prop, unknown, [c.name for c in clauses]))
            return 2
        clauses = [c for c in clauses if c.name in a.clause]
    violations = []   # (clause, case, viol, path)
    harness_errors = []

    # 1. regression replays (shrunk failures of fixed defects) and witnesses of open findings
    regdir = os.path.join(ROOT, "replays", "regress")
    nreg = 0
    if os.path.isdir(regdir) and not a.clause:
        for fn in sorted(os.listdir(regdir)):
            if not fn.startswith(prop + "-") or not fn.endswith(".json"):
                continue
            p = os.path.join(regdir, fn)
            try:
                fresh, _ = replay_file(prop, mod, findings, p)
            except Exception as e:
                harness_errors.append({"error": repr(e), "tb": traceback.format_exc()[-3000:]})
                continue
            nreg += 1
            for v in fresh:
                violations.append((json.load(open(p))["clause"], None, v, p))
    kf_lines = []
    for f in findings:
        if f.get("status") != "open" or "witness" not in f:
            continue
        cl = [c for c in get_clauses(mod) if c.name == f["clause"]]
        if not cl:
            harness_errors.append({"error": "finding %s names unknown clause" % f["id"], "tb": ""})
            continue
        res = core.ShardResult()
        fresh = core.run_case(cl[0], f["witness"], findings, res)
        if res.harness_errors:
            harness_errors.extend(res.harness_errors)
        if res.kf_hits.get(f["id"]):
            kf_lines.append("KNOWN-FINDING: property=%s %s [%s]" % (prop, f["what"], f["id"]))
        for v in fresh:
            # the witness now fails in a way the finding does not cover (e.g. outside its envelope)
            p = write_replay(prop, f["clause"], f["witness"], v, seed, a.tier, note="witness of %s outside its listed envelope" % f["id"])
            violations.append((f["clause"], f["witness"], v, p))

    # 2. generated search
    wall = QUICK_WALL if a.tier == "quick" else THOROUGH_WALL
    deadline = time.time() + wall
    tasks = []
    for c in clauses:
        n = max(1, int(round(c.budget[a.tier] * a.scale)))
        k = max(1, min(c.nshards(a.tier, a.jobs), n))
        per = [n // k + (1 if i < n % k else 0) for i in range(k)]
        for i, ni in enumerate(per):
            tasks.append((prop, c.name, ni, core.stable_seed(seed, prop, c.name, i), deadline, None))
    results = []
    if tasks:
        ctx = mp.get_context("spawn")
        with ctx.Pool(min(a.jobs, len(tasks))) as pool:
            for d in pool.imap_unordered(_work, tasks, chunksize=1):
                results.append(d)

    # 2b. coverage-guided tier (thorough only): the same clause tests driven by atheris/libFuzzer
    atheris_info = {}
    FUZZ = {"C05": ["programs"], "C07": ["transport", "limited", "after_history"], "C08": ["history"], "C09": ["hashtable"], "C14": ["cnt", "cache"],
        "C15": ["setter_history", "rcrit"], "C17": ["bounds"], "C18": ["strength"]}
    if a.tier == "thorough" and prop in FUZZ and not a.clause and os.environ.get("VK_NOFUZZ") != "1":
        runs = int(float(os.environ.get("VK_FUZZ_RUNS", "40000")) * a.scale)
        procs = []
        os.makedirs(os.path.join(ROOT, "scratch"), exist_ok=True)
        for cname in FUZZ[prop]:
            for k in range(4):
                outp = os.path.join(ROOT, "scratch", "fuzz_%s_%s_%d_%d.json" % (prop, cname, k, os.getpid()))
                cmd = [sys.executable, "-W", "ignore", "-m", "vk.fuzz", prop, cname, str(runs), str(core.stable_seed(seed, prop, cname, "fz", k) % 2**31), outp]
                procs.append((cname, outp, subprocess.Popen(cmd, cwd=ROOT, stdout=subprocess.DEVNULL, stderr=subprocess.DEVNULL)))
        for cname, outp, pr in procs:
            try:
                pr.wait(timeout=max(60, deadline - time.time()))
            except subprocess.TimeoutExpired:
                pr.kill()
            info = atheris_info.setdefault(cname, {"executions": 0, "distinct_cases": 0, "nontrivial": 0, "violation_kinds": {}, "fallback": None})
            if not os.path.exists(outp):
                info["fallback"] = "no result (atheris not importable or campaign killed)"
                continue
            d = json.load(open(outp))
            os.remove(outp)
            if "fallback" in d:
                info["fallback"] = d["fallback"]
                continue
            info["executions"] += d.get("executions", 0)
            info["distinct_cases"] += d.get("distinct_cases", 0)
            info["nontrivial"] += len(d.get("nt_hashes", []))
            d.update({"clause": cname, "seed": seed, "n": 0, "last_fail": None})
            d["evaluations"] = 0          # atheris executions are reported separately, not added to the Hypothesis counts
            d["nt_hashes"] = []
            d["labels"] = {}
            d["samples"] = []
            d["skipped_after_deadline"] = 0
            for kind, b in d["buckets"].items():
                info["violation_kinds"][kind] = info["violation_kinds"].get(kind, 0) + b["count"]
            results.append(d)

    per_clause = {}
    for c in clauses:
        per_clause[c.name] = {"evaluations": 0, "nt": set(), "labels": {}, "samples": [], "kf_hits": {},
                              "skipped_after_deadline": 0, "buckets": {}, "wall_cpu": 0.0, "rule": c.rule}
    for d in results:
        if "fatal" in d:
            harness_errors.append({"error": d["fatal"], "tb": d["tb"], "clause": d["clause"]})
            continue
        pc = per_clause[d["clause"]]
        pc["evaluations"] += d["evaluations"]
        pc["nt"].update(d["nt_hashes"])
        for k, v in d["labels"].items():
            pc["labels"][k] = pc["labels"].get(k, 0) + v
        for s in d["samples"]:
            if len(pc["samples"]) < 3:
                pc["samples"].append(s)
        for k, v in d["kf_hits"].items():
            pc["kf_hits"][k] = pc["kf_hits"].get(k, 0) + v
        pc["skipped_after_deadline"] += d["skipped_after_deadline"]
        pc["wall_cpu"] += d["wall"]
        for he in d["harness_errors"]:
            he = dict(he)
            he["clause"] = d["clause"]
            harness_errors.append(he)
        for kind, b in d["buckets"].items():
            cur = pc["buckets"].get(kind)
            b = dict(b)
            b["seed"] = d["seed"]
            b["n"] = d["n"]
            if cur is None or b["size"] < cur["size"]:
                if cur:
                    b["count"] += cur["count"]
                pc["buckets"][kind] = b
            else:
                cur["count"] += b["count"]

    # 3. shrink pass for buckets of cheap clauses, then write replay files
    shrink_incomplete = 0
    cmap = {c.name: c for c in clauses}
    shr_tasks = []
    for cname, pc in per_clause.items():
        for kind, b in sorted(pc["buckets"].items())[:4]:
            if cmap[cname].shrink and os.environ.get("VK_NOSHRINK") != "1":
                shr_tasks.append((prop, cname, b["n"], b["seed"], time.time() + 300, kind))
    if shr_tasks:
        ctx = mp.get_context("spawn")
        with ctx.Pool(min(a.jobs, len(shr_tasks))) as pool:
            for d in pool.imap_unordered(_work, shr_tasks, chunksize=1):
                if "fatal" in d or not d.get("last_fail"):
                    shrink_incomplete += 1
                    continue
                lf = d["last_fail"]
                b = per_clause[d["clause"]]["buckets"].get(lf["viol"]["kind"])
                if b and core._size(lf["case"]) <= b["size"]:
                    b["case"], b["viol"], b["shrunk"] = lf["case"], lf["viol"], True
    for cname, pc in per_clause.items():
        for kind, b in sorted(pc["buckets"].items()):
            p = write_replay(prop, cname, b["case"], b["viol"], seed, a.tier)
            violations.append((cname, b["case"], b["viol"], p))

    # 4. evidence
    wall_s = time.time() - t0
    evaluations = sum(pc["evaluations"] for pc in per_clause.values())
    distinct_nt = sum(len(pc["nt"]) for pc in per_clause.values())
    samples = []
    for cname, pc in per_clause.items():
        for s in pc["samples"][:2]:
            samples.append({"clause": cname, "case": s})
    rule = " || ".join("[%s] %s" % (n, pc["rule"]) for n, pc in per_clause.items())
    ev = {
        "property_id": prop, "tier": a.tier, "seed": seed,
        "level": getattr(mod, "LEVEL", "exploration"),
        "coverage": {
            "evaluations": evaluations, "distinct_nontrivial": distinct_nt, "rule": rule,
            "samples": samples,
            "per_clause": {n: {"evaluations": pc["evaluations"], "distinct_nontrivial": len(pc["nt"]),
                               "labels": dict(sorted(pc["labels"].items())),
                               "excluded_by_known_finding": pc["kf_hits"],
                               "skipped_after_deadline": pc["skipped_after_deadline"],
                               "violation_kinds": {k: b["count"] for k, b in pc["buckets"].items()},
                               "cpu_s": round(pc["wall_cpu"], 2)} for n, pc in per_clause.items()},
            "regression_replays_run": nreg,
            "known_findings_reproduced": kf_lines,
            "shrink_incomplete": shrink_incomplete,
            "atheris": atheris_info,
            "engine": "hypothesis %s (seeded, database=None, collect-then-shrink)" % __import__("hypothesis").__version__,
            "kawin_src": core.KAWIN_SRC, "kawin_rev": kawin_rev(),
            "harness_errors": len(harness_errors),
        },
        "assumptions": list(getattr(mod, "ASSUMPTIONS", [])),
        "wall_s": round(wall_s, 2),
        "violations": len(violations),
    }
    if not a.no_evidence and not a.clause:
        os.makedirs(os.path.join(ROOT, "evidence"), exist_ok=True)
        with open(os.path.join(ROOT, "evidence", "%s.json" % prop), "w") as f:
            json.dump(ev, f, indent=1, sort_keys=True)

    # 5. report
    for n, pc in per_clause.items():
        print("  clause %-28s cases=%-7d nontrivial=%-7d kf_excluded=%-5d skipped=%d  %s" % (
            n, pc["evaluations"], len(pc["nt"]), sum(pc["kf_hits"].values()), pc["skipped_after_deadline"],
            " ".join("%s=%d" % kv for kv in sorted(pc["labels"].items())[:12])))
    for line in kf_lines:
        print(line)
    if harness_errors:
        for he in harness_errors[:5]:
            print("HARNESS-ERROR property=%s clause=%s %s" % (prop, he.get("clause"), he["error"]))
            if he.get("tb"):
                print(he["tb"])
            if he.get("case") is not None:
                print("  case:", json.dumps(he["case"])[:1500])
        print("harness errors: %d" % len(harness_errors))
        for cname, case, v, pth in violations:
            print("  (also) [%s] %s: %s" % (cname, v["kind"], v["msg"][:300]))
        return 2
    if violations:
        for cname, case, v, p in violations:
            print("  [%s] %s: %s" % (cname, v["kind"], v["msg"][:600]))
            print("VIOLATION property=%s replay=%s" % (prop, p))
        return 1
    print("OK property=%s tier=%s seed=%d cases=%d nontrivial=%d wall=%.1fs" % (prop, a.tier, seed, evaluations, distinct_nt, wall_s))
    return 0


if __name__ == "__main__":
    sys.exit(main())
