"""Analytic, duck-typed thermodynamics backends for kawin's precipitation model and surrogates.

Pure functions of their arguments (no caches) -> paired runs are bit-reproducible, and equilibrium
compositions / driving forces / Gibbs-Thomson compositions are consistent by construction.
"""
import math

import numpy as np

R_GAS = 8.314462618


class ToyBinary:
    """Dilute ideal matrix + stoichiometric precipitates.

    phases: dict name -> dict(xb=precipitate composition, dH, dS)   solvus x_eq(T)=exp(-dH/RT+dS/R)
    Driving force per mole of precipitate:
        dG(x,T) = RT [ xb ln(x/x_eq) + (1-xb) ln((1-x)/(1-x_eq)) ]
    Interfacial composition for Gibbs-Thomson energy g: the root of dG(x,T) = g (so that driving force,
    phase boundary and critical radius agree by construction); the documented -1 sentinel when the root
    exceeds sentinel_frac*xb (dilute-solution validity) or does not exist.
    """
    numElements = 2

    def __init__(self, phases, D0=1e-4, Q=200e3, matrix="ALPHA", elements=("A", "B"), sentinel_frac=0.3, tracer_ratio=3.0):
        self.params = dict(phases)
        self.phases = [matrix] + list(phases.keys())
        self.elements = list(elements)
        self.D0, self.Q = D0, Q
        self.sentinel_frac = sentinel_frac
        self.tracer_ratio = tracer_ratio
        self.calls = {"df": 0, "ic": 0, "D": 0, "Dt": 0}

    # ---- helpers
    def _p(self, precPhase):
        if precPhase is None:
            precPhase = self.phases[1]
        return self.params[str(precPhase)]

    def xeq(self, T, precPhase=None):
        p = self._p(precPhase)
        return np.exp(-p["dH"] / (R_GAS * np.asarray(T, dtype=float)) + p["dS"] / R_GAS)

    def dG(self, x, T, precPhase=None):
        p = self._p(precPhase)
        xb = p["xb"]
        x = np.clip(np.asarray(x, dtype=float), 1e-30, 1 - 1e-12)   # the model clamps depleted matrices to 0: keep the ideal-solution logarithm finite
        T = np.asarray(T, dtype=float)
        xe = self.xeq(T, precPhase)
        with np.errstate(divide="ignore", invalid="ignore"):
            return R_GAS * T * (xb * np.log(x / xe) + (1 - xb) * np.log((1 - x) / (1 - xe)))

    # ---- kawin API
    def clearCache(self):
        pass

    def getDrivingForce(self, x, T, precPhase=None, removeCache=False, local_phase_sampling_conditions=None):
        self.calls["df"] += 1
        x = np.asarray(x, dtype=float)
        T = np.asarray(T, dtype=float)
        xs = x.reshape(-1) if x.ndim <= 2 and (x.ndim < 2 or x.shape[-1] == 1) else x
        Ts = np.broadcast_to(T.reshape(-1) if T.ndim <= 1 else T, xs.shape) if xs.shape != T.shape else T
        dg = self.dG(xs, Ts, precPhase)
        comp = np.full(np.shape(dg), self._p(precPhase)["xb"])
        return np.squeeze(dg), np.squeeze(comp)

    def getInterfacialComposition(self, T, gExtra=0, precPhase=None):
        self.calls["ic"] += 1
        T = np.asarray(T, dtype=float)
        g = np.asarray(gExtra, dtype=float)
        if T.ndim == 2:               # the surrogate trainer passes T as a column (N,1) next to gExtra (N,), like the real class accepts
            T = T.reshape(-1)
        shape = np.broadcast(T, g).shape
        Tb = np.broadcast_to(T, shape).astype(float).reshape(-1)
        gb = np.broadcast_to(g, shape).astype(float).reshape(-1)
        p = self._p(precPhase)
        xb = p["xb"]
        xe = self.xeq(Tb, precPhase)
        hi_lim = self.sentinel_frac * xb
        lo = np.minimum(xe, hi_lim)
        hi = np.full(lo.shape, hi_lim)
        ghi = self.dG(hi, Tb, precPhase)
        valid = (gb <= ghi) & (xe < hi_lim) & (gb >= 0)
        # bisection in log space on the monotone branch x < xb
        a, b = np.log(lo), np.log(hi)
        for _ in range(70):
            m = 0.5 * (a + b)
            fm = self.dG(np.exp(m), Tb, precPhase) - gb
            left = fm < 0
            a = np.where(left, m, a)
            b = np.where(left, b, m)
        xa = np.exp(0.5 * (a + b))
        xa = np.where(gb == 0, xe, xa)
        xa = np.where(valid, xa, -1.0)
        kb = p.get("kbeta", 0.0)
        if kb:
            # optional size-dependent precipitate composition (capillarity shifts the precipitate side too, as in gamma'):
            # smooth, monotone in g, below 0.95; the matrix side and the driving force keep the stoichiometric model
            xbv = xb + (0.95 - xb) * (1.0 - np.exp(-kb * np.maximum(gb, 0) / (R_GAS * Tb)))
        else:
            xbv = xb
        xbeta = np.where(valid, xbv, -1.0)
        return np.squeeze(xa.reshape(shape)), np.squeeze(xbeta.reshape(shape))

    def _D(self, T):
        return self.D0 * np.exp(-self.Q / (R_GAS * np.asarray(T, dtype=float)))

    def getInterdiffusivity(self, x, T, removeCache=True, phase=None):
        self.calls["D"] += 1
        x = np.asarray(x, dtype=float)
        T = np.asarray(T, dtype=float)
        shape = np.broadcast(np.squeeze(x), np.squeeze(T)).shape if x.size and T.size else ()
        return np.squeeze(np.broadcast_to(self._D(np.squeeze(T)), shape) * 1.0)

    def getTracerDiffusivity(self, x, T, removeCache=True, phase=None):
        self.calls["Dt"] += 1
        T = np.atleast_1d(np.squeeze(np.asarray(T, dtype=float)))
        x = np.atleast_1d(np.squeeze(np.asarray(x, dtype=float)))
        n = max(len(T), len(x))
        D = np.broadcast_to(self._D(T), (n,))
        out = np.stack([D * self.tracer_ratio, D], axis=1)
        return out[0] if n == 1 else out


class ToyMulti:
    """Dilute ideal multicomponent matrix, stoichiometric precipitates with a solubility product.

    phases: dict name -> dict(xb=[...solute fractions...], dH, dS):  ln K(T) = -dH/RT + dS/R,
            K = prod_i x_i^{xb_i} over solutes (activity of the solvent taken as 1).
    Driving force per mole of precipitate: dG = RT [ sum_i xb_i ln x_i - ln K ].
    Tie line: c_eq = x - s*(xb - x) with s >= 0 the root of dG(c_eq) = 0 (mass-balance line through the alloy).
    Philippe-Voorhees quantities for the ideal dilute case with diagonal diffusivity D_i:
        M^-1_ii = RT/(c_eq,i D_i);  mc = 1/(dc^T M^-1 dc);  dcv = D^-1 dc * mc;  beta = 1/sum_i dc_i^2/(c_eq,i D_i)
        growth = mc/R (dG - g),  c_alpha = x - (dG - g) dcv (clipped),  c_beta = xb.
    Returns None when the alloy is under-saturated (documented: 'Will return None if single phase').
    """

    def __init__(self, elements, phases, D0, Q, matrix="ALPHA"):
        self.elements = list(elements)          # [solvent, solute1, solute2, ...]
        self.numElements = len(self.elements)
        self.params = {k: dict(v, xb=np.array(v["xb"], dtype=float)) for k, v in phases.items()}
        self.phases = [matrix] + list(phases.keys())
        self.D0 = np.array(D0, dtype=float)      # per solute
        self.Q = np.array(Q, dtype=float)
        self.calls = {"df": 0, "growth": 0, "imp": 0, "D": 0}
        self._last = {}

    def _p(self, precPhase):
        if precPhase is None:
            precPhase = self.phases[1]
        return self.params[str(precPhase)]

    def clearCache(self):
        self._last = {}

    def lnK(self, T, precPhase=None):
        p = self._p(precPhase)
        return -p["dH"] / (R_GAS * T) + p["dS"] / R_GAS

    def dG(self, x, T, precPhase=None):
        p = self._p(precPhase)
        x = np.clip(np.asarray(x, dtype=float), 1e-30, 1.0)
        with np.errstate(divide="ignore", invalid="ignore"):
            return R_GAS * T * (np.sum(p["xb"] * np.log(x), axis=-1) - self.lnK(T, precPhase))

    def Dsol(self, T):
        return self.D0 * np.exp(-self.Q / (R_GAS * T))

    def getDrivingForce(self, x, T, precPhase=None, removeCache=False, local_phase_sampling_conditions=None):
        self.calls["df"] += 1
        x = np.atleast_2d(np.asarray(x, dtype=float))
        T = np.atleast_1d(np.asarray(T, dtype=float)).reshape(-1)
        if len(T) == 1 and len(x) > 1:
            T = np.repeat(T, len(x))
        if len(x) == 1 and len(T) > 1:
            x = np.repeat(x, len(T), axis=0)
        dg = np.array([self.dG(xi, Ti, precPhase) for xi, Ti in zip(x, T)])
        comp = np.array([self._p(precPhase)["xb"] for _ in T])
        return np.squeeze(dg), np.squeeze(comp)

    def _tieline(self, x, T, precPhase):
        p = self._p(precPhase)
        xb = p["xb"]
        x = np.asarray(x, dtype=float)
        dg0 = self.dG(x, T, precPhase)
        if dg0 < 0:
            return None
        if dg0 == 0:
            return x.copy()
        d = xb - x
        # c(s) = x - s d must stay positive: s < min x_i/d_i over d_i>0
        pos = d > 0
        if not np.any(pos):
            return None
        smax = np.min(x[pos] / d[pos])
        f = lambda s: self.dG(np.clip(x - s * d, 0.0, 1.0), T, precPhase)     # dG floors compositions at 1e-30
        if f(smax) > 0:
            return np.clip(x - smax * d, 1e-30, 1.0)      # the limiting solute is exhausted before equilibrium is reached
        a, b = 0.0, smax
        for _ in range(100):
            m = 0.5 * (a + b)
            if f(m) > 0:
                a = m
            else:
                b = m
        return x - 0.5 * (a + b) * d

    def curvature(self, x, T, precPhase=None):
        p = self._p(precPhase)
        ceq = self._tieline(x, T, precPhase)
        if ceq is None:
            return None
        D = self.Dsol(T)
        dc = p["xb"] - ceq
        minv = R_GAS * T / (ceq * D)
        den = float(np.sum(dc * minv * dc))
        mc = 1.0 / den
        dcv = dc / D * mc
        beta = 1.0 / float(np.sum(dc ** 2 / (ceq * D)))
        return {"mc": mc, "dc": dcv, "beta": beta, "c_eq_alpha": ceq, "c_eq_beta": p["xb"].copy()}

    def getGrowthAndInterfacialComposition(self, x, T, dG, R, gExtra, precPhase=None, removeCache=False, searchDir=None):
        self.calls["growth"] += 1
        x = np.atleast_1d(np.squeeze(np.asarray(x, dtype=float)))
        cv = self.curvature(x, float(np.squeeze(T)), precPhase)
        if cv is None:
            return None
        R = np.atleast_1d(np.asarray(R, dtype=float))
        g = np.atleast_1d(np.asarray(gExtra, dtype=float))
        diff = dG - g
        gr = cv["mc"] / R * diff
        ca = np.clip(x[np.newaxis, :] - np.outer(diff, cv["dc"]), 0, 1)
        cb = np.repeat(cv["c_eq_beta"][np.newaxis, :], len(diff), axis=0)
        return np.squeeze(gr), np.squeeze(ca), np.squeeze(cb), cv["c_eq_alpha"].copy(), cv["c_eq_beta"].copy()

    def impingementFactor(self, x, T, precPhase=None, removeCache=False, searchDir=None):
        self.calls["imp"] += 1
        x = np.atleast_1d(np.squeeze(np.asarray(x, dtype=float)))
        cv = self.curvature(x, float(np.squeeze(T)), precPhase)
        key = str(precPhase)
        if cv is None:
            return self._last.get(key)
        self._last[key] = cv["beta"]
        return cv["beta"]

    def getInterdiffusivity(self, x, T, removeCache=True, phase=None):
        self.calls["D"] += 1
        return np.diag(self.Dsol(float(np.squeeze(T))))

    def getTracerDiffusivity(self, x, T, removeCache=True, phase=None):
        D = self.Dsol(float(np.squeeze(T)))
        return np.concatenate([[np.mean(D)], D])
