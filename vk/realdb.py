"""Lazily built thermodynamics objects on the databases shipped with kawin (one set per worker process)."""
import io
import sys

_cache = {}


def get(name):
    if name in _cache:
        return _cache[name]
    full = name
    name = name.split("#")[0]          # 'alzr:tangent#ref' -> a second, independent instance of the same configuration
    from kawin.tests import datasets as D
    from kawin.thermo import GeneralThermodynamics, BinaryThermodynamics, MulticomponentThermodynamics
    so = sys.stdout
    sys.stdout = io.StringIO()
    try:
        if name == "fecrni":
            t = GeneralThermodynamics(D.FECRNI_DB, ["FE", "CR", "NI"], ["FCC_A1", "BCC_A2"])
        elif name == "fecrni_rev":
            t = GeneralThermodynamics(D.FECRNI_DB, ["FE", "NI", "CR"], ["FCC_A1", "BCC_A2"])
        elif name == "fecrni_bccfirst":
            t = GeneralThermodynamics(D.FECRNI_DB, ["FE", "CR", "NI"], ["BCC_A2", "FCC_A1"])
        elif name == "fecrni_sigma":
            t = GeneralThermodynamics(D.FECRNI_DB, ["FE", "CR", "NI"], ["FCC_A1", "BCC_A2", "SIGMA"])
        elif name == "nicral_gen":
            t = GeneralThermodynamics(D.NICRAL_TDB, ["NI", "CR", "AL"], ["FCC_A1", "BCC_A2"])
        elif name == "nicral_gen_rev":
            t = GeneralThermodynamics(D.NICRAL_TDB, ["NI", "AL", "CR"], ["FCC_A1", "BCC_A2"])
        elif name == "nicr_gen":
            t = GeneralThermodynamics(D.NICRAL_TDB, ["NI", "CR"], ["FCC_A1", "BCC_A2"])
        elif name == "nial_gen":
            t = GeneralThermodynamics(D.NICRAL_TDB, ["NI", "AL"], ["FCC_A1", "BCC_A2"])
        elif name.startswith("alzr"):
            method = name.split(":")[1] if ":" in name else "tangent"
            t = BinaryThermodynamics(D.ALZR_TDB, ["AL", "ZR"], ["FCC_A1", "AL3ZR"], drivingForceMethod=method)
        elif name.startswith("nicral_rev"):
            method = name.split(":")[1] if ":" in name else "tangent"
            t = MulticomponentThermodynamics(D.NICRAL_TDB, ["NI", "AL", "CR"], ["FCC_A1", "FCC_L12"], drivingForceMethod=method)
        elif name.startswith("nicral"):
            method = name.split(":")[1] if ":" in name else "tangent"
            t = MulticomponentThermodynamics(D.NICRAL_TDB, ["NI", "CR", "AL"], ["FCC_A1", "FCC_L12"], drivingForceMethod=method)
        elif name.startswith("almgsi_rev"):
            t = MulticomponentThermodynamics(D.ALMGSI_DB, ["AL", "SI", "MG"], ["FCC_A1", "MGSI_B_P", "MG5SI6_B_DP", "B_PRIME_L", "U1_PHASE", "U2_PHASE"], drivingForceMethod="tangent")
        elif name.startswith("almgsi"):
            method = name.split(":")[1] if ":" in name else "tangent"
            t = MulticomponentThermodynamics(D.ALMGSI_DB, ["AL", "MG", "SI"], ["FCC_A1", "MGSI_B_P", "MG5SI6_B_DP", "B_PRIME_L", "U1_PHASE", "U2_PHASE"], drivingForceMethod=method)
        else:
            raise KeyError(name)
    finally:
        sys.stdout = so
    _cache[full] = t
    return t


def fresh(name):
    _cache.pop(name, None)
    return get(name)
