"""Hypothesis strategies building precipitation scenario dicts (see harness_kwn.build_model)."""
import math

import numpy as np
from hypothesis import strategies as st

R_GAS = 8.314462618
KMAX = {"grain boundaries": 1.0, "grain edges": math.sqrt(3) / 2, "grain corners": math.sqrt(2 / 3)}
AVOG = 6.02214076e23


def _vol(draw, vm):
    """Give a molar volume as molar volume, atomic (cell) volume or lattice parameter (4 atoms per cell)."""
    kind = draw(st.sampled_from(["VM", "VM", "VA", "a"]))
    if kind == "VM":
        return [vm, "VM", 4]
    va = 4 * vm / AVOG
    if kind == "VA":
        return [va, "VA", 4]
    return [va ** (1 / 3), "a", 4]


@st.composite
def temperature_spec(draw, T0, total_time, allow_profile=True, max_span=120.0):
    if not allow_profile or draw(st.integers(0, 9)) < 6:  # simplest = constant
        return ["const", T0]
    n = draw(st.integers(2, 4))
    hrs = [0.0]
    for _ in range(n - 1):
        hrs.append(hrs[-1] + total_time / 3600 * draw(st.floats(0.05, 0.8)))
    Ts = [T0]
    for _ in range(n - 1):
        Ts.append(float(np.clip(Ts[-1] + draw(st.floats(-max_span, max_span)) * draw(st.sampled_from([0.0, 1.0, 1.0, 0.2])), 350.0, 1400.0)))
    return [draw(st.sampled_from(["array", "array", "func"])), hrs, Ts]


@st.composite
def toy_phase(draw, name, T0, x0, vmA, allow_shapes=True, sites=None, undersat=True, allow_elastic=False, allow_kbeta=False, strain_odds=3):
    """Phase parameters constructed so that the nucleation barrier G*/kT lies in a useful range."""
    xb = draw(st.floats(max(0.2, min(0.7, 6 * x0)), 0.75))
    if undersat and draw(st.integers(0, 5)) == 5:
        S = 10 ** draw(st.floats(-0.3, 0.5))
    else:
        S = 10 ** draw(st.floats(0.5, 1.7))
    xeq = x0 / S
    dS = draw(st.floats(0.0, 30.0))
    dH = R_GAS * T0 * (dS / R_GAS - math.log(xeq))
    site = draw(st.sampled_from(sites or ["bulk", "bulk", "dislocations", "dislocations", "grain boundaries", "grain edges", "grain corners"]))
    ratio = draw(st.floats(0.5, 2.0))          # V_alpha / V_beta
    vmB = vmA / ratio
    dGm = R_GAS * T0 * (xb * math.log(S) + (1 - xb) * math.log((1 - x0) / (1 - xeq)))
    dGv = dGm / vmB
    p = {"name": name, "xb": xb, "dH": dH, "dS": dS, "site": site}
    if dGv > 0 and draw(st.integers(0, strain_odds)) == strain_odds:
        p["strain"] = dGv * draw(st.floats(0.05, 0.5))
        dGv -= p["strain"]
    if dGv > 0:
        g = draw(st.floats(5.0, 35.0))
        gamma = (3 * dGv ** 2 * g * 1.380649e-23 * T0 / (16 * math.pi)) ** (1 / 3)
        p["gamma"] = float(min(1.0, max(0.01, gamma)))
    else:
        p["gamma"] = draw(st.floats(0.03, 0.4))
    if site in ("bulk", "dislocations") and allow_shapes:
        p["shape"] = draw(st.sampled_from(["sphere", "sphere", "needle", "plate", "cubic"]))
        if p["shape"] != "sphere":
            p["ar"] = draw(st.floats(1.0, 5.0))
    else:
        p["shape"] = "sphere"
    if allow_elastic and p["shape"] in ("needle", "plate") and "strain" not in p and draw(st.integers(0, 1)) == 1:
        # aspect ratio computed from the elastic strain energy (calculateAspectRatio=True): isotropic matrix, small tetragonal misfit
        e1 = draw(st.floats(2e-3, 1e-2))
        e3 = e1 * draw(st.floats(1.5, 5.0))
        p["elastic"] = {"eig": [e1, e1, e3] if p["shape"] == "plate" else [e3, e3, e1], "G": draw(st.floats(2e10, 8e10)), "nu": draw(st.floats(0.25, 0.4))}
    if allow_kbeta and draw(st.integers(0, 2)) == 2:
        p["kbeta"] = draw(st.floats(0.05, 1.0))      # size-dependent precipitate composition (see toy.ToyBinary.getInterfacialComposition)
    p["VmB"] = _vol(draw, vmB)
    p["_omega"] = (x0 - xeq) / (xb * ratio - xeq) if S > 1 else None
    return p


def _draw_api(draw, sc):
    """Entry point through which the harness enters the configuration: model-level setters (2 in 3) or parameter objects
    handed to the constructor (matrix object filled in one of three orders)."""
    if draw(st.integers(0, 2)) == 2:
        sc["api"] = "objects"
        sc["obj_order"] = draw(st.integers(0, 2))
        if sc["system"] != "toy_bin" and len(sc.get("durations", [])) > 1 and draw(st.booleans()):
            sc["reuse_x0_array"] = True


@st.composite
def pbm_spec(draw):
    cmin = 10 ** draw(st.floats(-10.3, -9.5))
    bins = draw(st.integers(20, 120))
    minB = draw(st.integers(max(10, bins // 2), max(12, int(bins * 1.2))))
    minB = min(minB, 2 * bins - 2)           # keep bins > minBins/2
    maxB = draw(st.integers(max(bins, minB) + 2, 2 * max(bins, minB) + 10))
    return {"cmin": cmin, "cmax": cmin * 10 ** draw(st.floats(1.0, 2.3)), "bins": bins, "minBins": minB, "maxBins": maxB,
            "adaptive": draw(st.sampled_from([True, True, True, False]))}


def draw_reconfigure(draw, sc):
    """A second run on the same model after an interfacial or the grain-boundary energy was changed (kept admissible for boundary-type
    sites: k = gbe/(2 gamma) below its limit) and the results were reset: stored under sc['reconfigure']."""
    rc = {}
    gbs = [p for p in sc["phases"] if p["site"] in KMAX]
    if gbs and draw(st.booleans()):
        rc["gbe"] = min(2 * draw(st.floats(0.0, 0.95)) * KMAX[p["site"]] * p["gamma"] for p in gbs)
    else:
        p = sc["phases"][draw(st.integers(0, len(sc["phases"]) - 1))]
        gam = p["gamma"] * draw(st.floats(0.7, 1.5))
        if p["site"] in KMAX and "gbe" in sc:
            gam = max(gam, sc["gbe"] / (2 * 0.95 * KMAX[p["site"]]))
        rc["gamma"] = {p["name"]: float(gam)}
    sc["reconfigure"] = rc


def _param_calls(draw, sc):
    """Parameters set again between two solve calls of the same model (a parameter study continued on one object): the molar
    volume of a precipitate phase, by a factor 0.8-1.3.  Keys are phase indices as strings (JSON)."""
    if len(sc["durations"]) < 2 or draw(st.integers(0, 4)) != 0:
        return
    calls = []
    for _ in sc["durations"][1:]:
        ch = {}
        for i, p in enumerate(sc["phases"]):
            if draw(st.booleans()):
                f = draw(st.floats(0.8, 1.3))
                v = p["VmB"]
                ch[str(i)] = [v[0] * (f if v[1] in ("VM", "VA") else f ** (1.0 / 3.0)), v[1], v[2]]
        calls.append(ch)
    if any(calls):
        sc["VmB_calls"] = calls


@st.composite
def constraints_spec(draw):
    c = {"dtScale": draw(st.sampled_from([1e-3, 0.05, 0.05, 0.2]))}
    for key in ("checkPSD", "checkNucleation", "checkRcrit", "checkVolumePre", "checkTemperature"):
        if draw(st.integers(0, 7)) == 7:
            c[key] = False
    if draw(st.integers(0, 5)) == 5:
        c["maxTempChange"] = draw(st.floats(0.1, 10.0))
    if draw(st.integers(0, 5)) == 5:
        c["minRadius"] = draw(st.sampled_from([1e-10, 6e-10, 1e-9, 2e-9]))     # documented constraint, default 3e-10 (the per-phase Rmin of the nucleation barrier keeps its own default)
    if draw(st.integers(0, 4)) == 4:
        c["minComposition"] = 10 ** draw(st.floats(-12, -6))
        if draw(st.booleans()):
            # coarse stepping with the step-size checks off: the matrix overshoots and the documented clamp of a negative balance
            # engages in about one run in ten (measured), against under 1 % otherwise
            c.update({"dtScale": 0.2, "checkVolumePre": False, "checkPSD": False, "checkNucleation": False})
    return c


def _times(draw, dtScale, total_log10=None):
    if total_log10 is not None:
        total = 10 ** draw(st.floats(*total_log10))
    elif dtScale <= 1e-3:
        total = 10 ** draw(st.floats(0.0, 1.2))
    elif dtScale <= 0.05:
        total = 10 ** draw(st.floats(1.0, 5.5))
    else:
        total = 10 ** draw(st.floats(1.0, 7.0))
    nd = draw(st.sampled_from([1, 1, 2, 3]))
    cuts = sorted(draw(st.floats(0.05, 0.95)) for _ in range(nd - 1))
    edges = [0.0] + cuts + [1.0]
    return total, [total * (b - a) for a, b in zip(edges[:-1], edges[1:])]


@st.composite
def toy_binary_scenario(draw, cap=400, max_phases=3, allow_profile=True, sites=None, allow_shapes=True, undersat=True, total_log10=None, dtScales=None, allow_elastic=False, allow_kbeta=False, strain_odds=3, allow_param_calls=False):
    T0 = draw(st.floats(500.0, 900.0))
    nph = min(max_phases, draw(st.sampled_from([1, 1, 1, 2, 2, 3])))
    x0 = 10 ** draw(st.floats(-3.3, -1.3))
    vmA = 10 ** draw(st.floats(-5.3, -4.8))
    phases = [draw(toy_phase("P%d" % i, T0, x0, vmA, allow_shapes=allow_shapes, sites=sites, undersat=undersat, allow_elastic=allow_elastic, allow_kbeta=allow_kbeta, strain_odds=strain_odds)) for i in range(nph)]
    cons = draw(constraints_spec())
    if dtScales:
        cons["dtScale"] = draw(st.sampled_from(dtScales))
    total, durations = _times(draw, cons["dtScale"], total_log10)
    omegas = [p["_omega"] for p in phases if p["_omega"]]
    omega = max(omegas) if omegas else 0.01
    t_g = total * 10 ** draw(st.floats(-3.0, -1.0))
    D_T0 = float(min(1e-10, max(1e-24, (3e-9) ** 2 / (2 * omega * t_g))))
    for p in phases:
        del p["_omega"]
    Q = draw(st.floats(100e3, 300e3))
    D0 = D_T0 * math.exp(Q / (R_GAS * T0))
    sc = {"system": "toy_bin", "phases": phases, "D0": D0, "Q": Q, "x0": x0, "VmA": _vol(draw, vmA),
          "T": draw(temperature_spec(T0, total, allow_profile)), "pbm": draw(pbm_spec()), "constraints": cons,
          "iterator": draw(st.sampled_from(["euler", "euler", "rk4"])), "durations": durations, "cap": cap,
          "minDtFrac": draw(st.sampled_from([1e-8, 1e-8, 1e-4, 1e-3]))}
    gbs = [p for p in phases if p["site"] in KMAX]
    if gbs:
        kf = draw(st.floats(0.0, 0.95))
        if draw(st.integers(0, 7)) == 0:
            kf = 0.0          # grain-boundary energy exactly 0 (documented: equivalent to bulk precipitation)
        sc["gbe"] = min(2 * kf * KMAX[p["site"]] * p["gamma"] for p in gbs)
    if draw(st.integers(0, 3)) == 3:
        sc["nucdens"] = {"grainSize": 10 ** draw(st.floats(-1, 2.5)), "aspectRatio": draw(st.floats(1, 3)), "dislocationDensity": 10 ** draw(st.floats(10, 15))}
    # rarely used model options (each off in the simplest example)
    opts = {}
    if draw(st.integers(0, 4)) == 4:
        opts["betaBinary"] = 2                      # impingement rate computed like the multicomponent one
    if draw(st.integers(0, 4)) == 4:
        opts["effectiveDiffusion"] = False          # diffusion distance = particle radius
    if draw(st.integers(0, 5)) == 5:
        opts["theta"] = draw(st.sampled_from([1.0, 4.0, 4 * math.pi]))
    if nph > 1 and draw(st.integers(0, 3)) == 3:
        k = draw(st.integers(1, nph - 1))
        opts["parents"] = {phases[k]["name"]: [phases[j]["name"] for j in range(k) if draw(st.booleans())] or [phases[0]["name"]]}
    if opts:
        sc["options"] = opts
    _draw_api(draw, sc)
    if allow_param_calls:
        _param_calls(draw, sc)      # molar volumes set again between solve calls: only for the mass / moment identities (C01, C02), which hold for whatever table the running model uses
    return sc


@st.composite
def toy_multi_scenario(draw, cap=300, max_phases=2, allow_profile=True, min_phases=1, allow_shapes=False, strain_odds=3, allow_param_calls=False):
    T0 = draw(st.floats(600.0, 1000.0))
    nph = max(min_phases, min(max_phases, draw(st.sampled_from([1, 1, 2]))))
    x0 = [draw(st.floats(0.005, 0.08)), draw(st.floats(0.005, 0.08))]
    vmA = 10 ** draw(st.floats(-5.3, -4.8))
    cons = draw(constraints_spec())
    total, durations = _times(draw, cons["dtScale"])
    phases = []
    for i in range(nph):
        xb = [draw(st.floats(0.1, 0.4)), draw(st.floats(0.1, 0.4))]
        # choose ln K so that the alloy is supersaturated by a factor S in the solubility product
        if draw(st.integers(0, 5)) == 5:
            S = 10 ** draw(st.floats(-0.2, 0.3))
        else:
            S = 10 ** draw(st.floats(0.3, 1.5))
        lnQ = xb[0] * math.log(x0[0]) + xb[1] * math.log(x0[1])
        lnK = lnQ - math.log(S)
        dS = draw(st.floats(0.0, 30.0))
        dH = R_GAS * T0 * (dS / R_GAS - lnK)
        vmB = vmA / draw(st.floats(0.5, 2.0))
        dGv = R_GAS * T0 * math.log(S) / vmB
        p = {"name": "P%d" % i, "xb": xb, "dH": dH, "dS": dS, "site": draw(st.sampled_from(["bulk", "dislocations", "grain boundaries"])), "shape": "sphere"}
        if allow_shapes and p["site"] in ("bulk", "dislocations"):
            p["shape"] = draw(st.sampled_from(["sphere", "needle", "plate", "cubic"]))
            if p["shape"] != "sphere":
                p["ar"] = draw(st.floats(1.0, 5.0))
        if dGv > 0 and draw(st.integers(0, strain_odds)) == strain_odds:
            p["strain"] = dGv * draw(st.floats(0.05, 0.5))
            dGv -= p["strain"]
        if dGv > 0:
            g = draw(st.floats(5.0, 35.0))
            p["gamma"] = float(min(0.6, max(0.01, (3 * dGv ** 2 * g * 1.380649e-23 * T0 / (16 * math.pi)) ** (1 / 3))))
        else:
            p["gamma"] = draw(st.floats(0.03, 0.3))
        p["VmB"] = _vol(draw, vmB)
        phases.append(p)
    t_g = total * 10 ** draw(st.floats(-3.0, -1.0))
    Dref = float(min(1e-10, max(1e-24, (3e-9) ** 2 / (2 * 0.05 * t_g))))
    Q = [draw(st.floats(150e3, 280e3)), draw(st.floats(150e3, 280e3))]
    DT = [Dref * 10 ** draw(st.floats(-0.7, 0.7)), Dref * 10 ** draw(st.floats(-0.7, 0.7))]
    D0 = [d * math.exp(q / (R_GAS * T0)) for d, q in zip(DT, Q)]
    sc = {"system": "toy_multi", "solutes": ["B", "C"], "phases": phases, "D0": D0, "Q": Q, "x0": x0, "VmA": _vol(draw, vmA),
          "T": draw(temperature_spec(T0, total, allow_profile, max_span=60.0)), "pbm": draw(pbm_spec()), "constraints": cons,
          "iterator": draw(st.sampled_from(["euler", "euler", "rk4"])), "durations": durations, "cap": cap,
          "minDtFrac": draw(st.sampled_from([1e-8, 1e-8, 1e-4, 1e-3]))}
    gbs = [p for p in phases if p["site"] in KMAX]
    if gbs:
        kf = draw(st.floats(0.0, 0.95))
        if draw(st.integers(0, 7)) == 0:
            kf = 0.0          # grain-boundary energy exactly 0 (documented: equivalent to bulk precipitation)
        sc["gbe"] = min(2 * kf * KMAX[p["site"]] * p["gamma"] for p in gbs)
    _draw_api(draw, sc)
    if allow_param_calls:
        _param_calls(draw, sc)      # molar volumes set again between solve calls: only for the mass / moment identities (C01, C02), which hold for whatever table the running model uses
    return sc


@st.composite
def real_scenario(draw, cap=120, systems=("alzr", "nicral")):
    """Scenarios on the shipped databases, close to the shipped examples (Al-Zr/Al3Zr binary, Ni-Al-Cr gamma prime)."""
    sysn = draw(st.sampled_from(list(systems)))
    cons = {"dtScale": draw(st.sampled_from([0.05, 0.2]))}
    if sysn == "alzr":
        T0 = draw(st.floats(650.0, 780.0))
        a = 0.405e-9
        sc = {"system": "alzr", "elements": ["ZR"], "x0": draw(st.floats(1.5e-3, 6e-3)),
              "phases": [{"name": "AL3ZR", "xb": 0.25, "gamma": draw(st.floats(0.06, 0.14)), "site": draw(st.sampled_from(["bulk", "dislocations", "grain boundaries"])),
                          "shape": "sphere", "VmB": [a ** 3, "VA", 4]}],
              "VmA": [a ** 3, "VA", 4], "nucdens": {"grainSize": 1.0, "aspectRatio": 1.0, "dislocationDensity": 1e15}}
        total = 10 ** draw(st.floats(3.0, 6.0))
    else:
        T0 = draw(st.floats(1000.0, 1120.0))
        a = 0.352e-9
        sc = {"system": "nicral", "elements": ["AL", "CR"], "x0": [draw(st.floats(0.085, 0.11)), draw(st.floats(0.06, 0.10))],
              "phases": [{"name": "FCC_L12", "gamma": draw(st.floats(0.015, 0.035)), "site": "bulk", "shape": "sphere", "VmB": [a ** 3, "VA", 4]}],
              "VmA": [a ** 3, "VA", 4]}
        if draw(st.booleans()):
            sc["phases"][0]["strain"] = 10 ** draw(st.floats(6.0, 7.3))
        total = 10 ** draw(st.floats(1.0, 4.0))
    if sc["phases"][0]["site"] in KMAX:
        sc["gbe"] = 2 * draw(st.floats(0.1, 0.8)) * KMAX[sc["phases"][0]["site"]] * sc["phases"][0]["gamma"]
    nd = draw(st.sampled_from([1, 1, 2]))
    sc.update({"T": ["const", T0] if draw(st.integers(0, 3)) < 3 else ["array", [0.0, total / 3600 * 0.5], [T0, T0 - draw(st.floats(5.0, 40.0))]],
               "pbm": {"cmin": 1e-10, "cmax": 1e-8, "bins": 75, "minBins": 50, "maxBins": 100, "adaptive": True},
               "constraints": cons, "iterator": draw(st.sampled_from(["euler", "rk4"])),
               "durations": [total] if nd == 1 else [total * 0.4, total * 0.6], "cap": cap})
    _draw_api(draw, sc)
    return sc
