"""Scalar-loop reference for the upwind size-class transport, written from the C07 statement.

Faces are numbered 0..N (N = number of classes); class i lies between faces i and i+1.
Growth (g_k > 0) moves particles from class k-1 to class k through face k;
dissolution (g_k < 0) moves particles from class k to class k-1 through face k.
What crosses face 0 (dissolution) or face N (growth) leaves the grid.
"""


def face_flux(bounds, n, g):
    """Signed number flux through every face (positive = towards larger classes)."""
    N = len(n)
    F = [0.0] * (N + 1)
    src = [None] * (N + 1)
    for k in range(N + 1):
        gk = float(g[k])
        if gk > 0 and k >= 1:
            F[k] = gk * float(n[k - 1]) / (float(bounds[k]) - float(bounds[k - 1]))
            src[k] = k - 1
        elif gk < 0 and k < N:
            F[k] = gk * float(n[k]) / (float(bounds[k + 1]) - float(bounds[k]))
            src[k] = k
    return F, src


def transport(bounds, n, g):
    """dn_i/dt without nucleation, plus the two boundary outflows (both >= 0)."""
    N = len(n)
    F, src = face_flux(bounds, n, g)
    d = [F[i] - F[i + 1] for i in range(N)]
    out_bottom = -F[0]
    out_top = F[N]
    return d, out_bottom, out_top, F, src


def limited(bounds, n, g, dt):
    """Face fluxes limited so that through one face a class loses at most its content in dt."""
    F, src = face_flux(bounds, n, g)
    L = list(F)
    for k, s in enumerate(src):
        if s is None:
            continue
        cap = float(n[s]) / dt
        if abs(L[k]) > cap:
            L[k] = cap if L[k] > 0 else -cap
    return L, F, src


def limited_total(bounds, n, g, dt):
    """As `limited`, then the documented intent of the correction ("the total number of particles leaving a bin should be less than
    or equal to the number of particles in the bin"): a class that loses through both faces (dissolution below, growth above) more
    than it holds has both out-fluxes scaled by content / (total loss).  Returns (fluxes, scaled_faces)."""
    L, F, src = limited(bounds, n, g, dt)
    L = list(L)
    N = len(n)
    scaled = set()
    for i in range(N):
        out_lo = -L[i] if (src[i] == i and L[i] < 0) else 0.0
        out_hi = L[i + 1] if (src[i + 1] == i and L[i + 1] > 0) else 0.0
        if out_lo > 0 and out_hi > 0 and (out_lo + out_hi) * dt > float(n[i]):
            sc = float(n[i]) / ((out_lo + out_hi) * dt)
            L[i] *= sc
            L[i + 1] *= sc
            scaled.update((i, i + 1))
    return L, scaled


def containing_class(bounds, r):
    """Index i with bounds[i] <= r < bounds[i+1]; 'below' / 'above' otherwise."""
    if r < bounds[0]:
        return "below"
    if r >= bounds[-1]:
        return "above"
    for i in range(len(bounds) - 1):
        if bounds[i] <= r < bounds[i + 1]:
            return i
    return "above"


def moment(n, centres, order, weights=None):
    s = 0.0
    for i in range(len(n)):
        w = 1.0 if weights is None else float(weights[i])
        s += float(n[i]) * float(centres[i]) ** order * w
    return s


def cumulative_moment(n, centres, order, weights=None):
    out = []
    s = 0.0
    for i in range(len(n)):
        w = 1.0 if weights is None else float(weights[i])
        s += float(n[i]) * float(centres[i]) ** order * w
        out.append(s)
    return out
