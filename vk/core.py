"""Core of the verification kit: Clause abstraction, case hashing, Hypothesis driving,
known-finding matching, evidence merging.

A *clause* is one executable fragment of a listed property:
    strategy()      -> hypothesis strategy building a JSON-serialisable case (dict/list/…)
    check(case)     -> Out  (pure function of the case and the code under KAWIN_SRC)
The same check() is what ``--replay`` runs with Hypothesis bypassed.
"""
import hashlib
import json
import math
import os
import sys
import time
import traceback

ROOT = os.path.dirname(os.path.dirname(os.path.abspath(__file__)))
KAWIN_SRC = os.environ.get("KAWIN_SRC", "/repo")


def use_repo():
    """Make `import kawin` resolve to the tree under KAWIN_SRC (default /repo)."""
    src = os.path.abspath(KAWIN_SRC)
    if sys.path[0] != src:
        sys.path.insert(0, src)
    import kawin  # noqa
    f = os.path.abspath(kawin.__file__)
    if not f.startswith(src + os.sep):
        raise RuntimeError("kawin imported from %s, expected under %s" % (f, src))
    return src


class HarnessError(Exception):
    """Raised for errors of the machinery itself (exit code 2, never a VIOLATION)."""


class KawinRefusal(Exception):
    """Raised by a harness when kawin deliberately rejects (a `raise` in kawin) a configuration the harness can show to be admissible
    by the documented rule: reported as a violation of the running clause, not as a harness error."""

    def __init__(self, kind, msg):
        super().__init__(msg)
        self.kind, self.msg = kind, msg


class Out:
    """Outcome of checking one case."""
    __slots__ = ("viol", "labels", "nontrivial", "info")

    def __init__(self):
        self.viol = []        # list of dict(kind=..., msg=..., data=...)
        self.labels = []      # classification labels for the evidence histogram
        self.nontrivial = False
        self.info = {}

    def fail(self, kind, msg, **data):
        self.viol.append({"kind": kind, "msg": str(msg)[:2000], "data": jsonable(data)})

    def label(self, *names):
        for n in names:
            if n not in self.labels:
                self.labels.append(n)

    def nt(self, flag=True):
        if flag:
            self.nontrivial = True


def jsonable(x):
    """Convert numpy scalars/arrays and odd floats to JSON-friendly values."""
    try:
        import numpy as np
    except Exception:  # pragma: no cover
        np = None
    if isinstance(x, dict):
        return {str(k): jsonable(v) for k, v in x.items()}
    if isinstance(x, (list, tuple)):
        return [jsonable(v) for v in x]
    if np is not None:
        if isinstance(x, np.ndarray):
            return jsonable(x.tolist())
        if isinstance(x, np.generic):
            return jsonable(x.item())
    if isinstance(x, float):
        if math.isnan(x):
            return "NaN"
        if math.isinf(x):
            return "Infinity" if x > 0 else "-Infinity"
        return x
    if isinstance(x, (int, str, bool)) or x is None:
        return x
    if isinstance(x, complex):
        return [x.real, x.imag]
    return repr(x)


def unjson_float(v):
    """Inverse of jsonable for special float strings."""
    if v == "NaN":
        return float("nan")
    if v == "Infinity":
        return float("inf")
    if v == "-Infinity":
        return float("-inf")
    return v


def case_hash(case):
    s = json.dumps(jsonable(case), sort_keys=True, separators=(",", ":"))
    return hashlib.sha1(s.encode()).hexdigest()


def stable_seed(*parts):
    h = hashlib.sha256("|".join(str(p) for p in parts).encode()).digest()
    return int.from_bytes(h[:8], "big") & 0x7FFFFFFFFFFFFFFF


class Clause:
    """One executable fragment of a property."""

    def __init__(self, name, strategy, check, quick, thorough, rule, shards=None,
                 shrink=True, doc="", max_shards=16, group=None):
        self.name = name
        self.strategy = strategy      # callable -> hypothesis strategy
        self.check = check            # callable(case) -> Out
        self.budget = {"quick": quick, "thorough": thorough}
        self.rule = rule              # words: generator + non-trivial rule
        self.shrink = shrink          # whether a Hypothesis shrink pass is affordable
        self.doc = doc
        self.max_shards = max_shards
        self.group = group

    def nshards(self, tier, ncpu):
        n = self.budget[tier]
        per_min = 4 if n < 48 else 6     # the first example of every shard is the strategy's simplest value: keep several examples per shard
        return max(1, min(self.max_shards, ncpu, n // per_min if per_min else 1))


class ShardResult:
    def __init__(self):
        self.evaluations = 0
        self.nt_hashes = set()
        self.labels = {}
        self.samples = []
        self.buckets = {}      # kind -> dict(case=, viol=, size=)
        self.kf_hits = {}      # finding id -> count
        self.harness_errors = []
        self.skipped_after_deadline = 0
        self.invalid = 0
        self.wall = 0.0

    def to_dict(self):
        return {
            "evaluations": self.evaluations, "nt_hashes": sorted(self.nt_hashes),
            "labels": self.labels, "samples": self.samples, "buckets": self.buckets,
            "kf_hits": self.kf_hits, "harness_errors": self.harness_errors,
            "skipped_after_deadline": self.skipped_after_deadline, "wall": self.wall,
        }


def _size(case):
    return len(json.dumps(jsonable(case), sort_keys=True))


def _kawin_internal_error(e):
    """'file:line (function)' of the innermost kawin frame if the exception was raised by an operation inside kawin (nothing of the
    harness deeper in the stack, and the failing kawin line is not a `raise` statement); None otherwise."""
    import linecache
    frames = traceback.extract_tb(e.__traceback__)
    ksrc = os.path.join(os.path.abspath(KAWIN_SRC), "kawin") + os.sep
    here = os.path.dirname(os.path.abspath(__file__)) + os.sep
    last = None
    for f in frames:
        fn = os.path.abspath(f.filename)
        if fn.startswith(ksrc) and os.sep + "tests" + os.sep not in fn:
            last = f
        elif fn.startswith(here):
            last = None                 # the harness is deeper in the stack than kawin (callback, stub backend, ...)
    if last is None:
        return None
    line = (last.line or linecache.getline(last.filename, last.lineno)).strip()
    if line.startswith("raise ") or line == "raise":
        return None
    return "%s:%d (%s)" % (os.path.relpath(last.filename, os.path.abspath(KAWIN_SRC)), last.lineno, last.name)


def run_case(clause, case, findings, res):
    """Run check on one case, account for it in res.  Returns list of *unlisted* violations."""
    import io
    _so = sys.stdout
    sys.stdout = io.StringIO()          # kawin prints from library code; keep the check's own output clean
    try:
        out = clause.check(case)
    except HarnessError:
        sys.stdout = _so
        raise
    except KawinRefusal as e:
        sys.stdout = _so
        out = Out()
        out.fail(e.kind, e.msg)
    except Exception as e:  # an exception escaping check() is a harness error ...
        tb = traceback.format_exc()
        sys.stdout = _so
        internal = _kawin_internal_error(e)
        if internal is None:
            res.harness_errors.append({"case": jsonable(case), "error": repr(e), "tb": tb[-3000:]})
            return []
        # ... unless it is an internal error of kawin on a generated (legal) input: a Python/numpy operation failing inside kawin's
        # own code, not a `raise` statement of kawin (a deliberate rejection means the harness asked for something kawin refuses)
        out = Out()
        out.fail("kawin_internal_error:%s" % type(e).__name__, "%r raised at %s while evaluating the case" % (e, internal))
    finally:
        sys.stdout = _so
    res.evaluations += 1
    _sc = case.get("sc", case) if isinstance(case, dict) else None
    if isinstance(_sc, dict) and _sc.get("api") == "objects":
        out.labels.append("configured_through_parameter_objects") if isinstance(out.labels, list) else out.labels.add("configured_through_parameter_objects")
    for lab in out.labels:
        res.labels[lab] = res.labels.get(lab, 0) + 1
    if out.nontrivial:
        h = case_hash(case)
        if h not in res.nt_hashes:
            res.nt_hashes.add(h)
            if len(res.samples) < 3:
                res.samples.append(jsonable(case))
    fresh = []
    for v in out.viol:
        fid = match_finding(findings, clause, case, v)
        if fid is not None:
            res.kf_hits[fid] = res.kf_hits.get(fid, 0) + 1
            continue
        fresh.append(v)
        b = res.buckets.get(v["kind"])
        sz = _size(case)
        if b is None or sz < b["size"]:
            res.buckets[v["kind"]] = {"case": jsonable(case), "viol": v, "size": sz,
                                      "count": (b["count"] if b else 0) + 1}
        else:
            b["count"] += 1
    return fresh


def match_finding(findings, clause, case, v):
    """Return id of the open known finding covering violation v of this case, else None."""
    for f in findings:
        if f.get("status") != "open":
            continue
        if f.get("clause") != clause.name:
            continue
        kinds = f.get("kinds") or [f.get("kind")]
        if v["kind"] not in kinds:
            continue
        pred = f.get("_pred")
        if pred is None:
            continue
        try:
            if pred(case, v):
                return f["id"]
        except Exception:
            continue
    return None


def drive(clause, n, seed, findings, deadline, shrink_kind=None):
    """Drive a clause with Hypothesis for n examples.  Collect mode (shrink_kind None) never
    raises on violations; shrink mode raises on violations of `shrink_kind` so that
    Hypothesis shrinks them; the last failing case seen is the minimal one."""
    import hypothesis
    from hypothesis import given, settings, HealthCheck, Phase, Verbosity
    res = ShardResult()
    t0 = time.time()
    last_fail = {}

    class _Viol(Exception):
        pass

    seen = set()

    def body(case):
        if deadline is not None and time.time() > deadline:
            res.skipped_after_deadline += 1
            return
        if shrink_kind is None:
            h = case_hash(case)
            if h in seen:          # Hypothesis regenerates identical values now and then; do not pay for them twice
                res.labels["duplicate_case_skipped"] = res.labels.get("duplicate_case_skipped", 0) + 1
                return
            seen.add(h)
        fresh = run_case(clause, case, findings, res)
        if shrink_kind is not None:
            for v in fresh:
                if v["kind"] == shrink_kind:
                    last_fail["case"] = jsonable(case)
                    last_fail["viol"] = v
                    raise _Viol(v["kind"])

    phases = (Phase.generate,) if shrink_kind is None else (Phase.generate, Phase.shrink)
    st = settings(max_examples=max(1, n), database=None, deadline=None, derandomize=False,
                  report_multiple_bugs=False, phases=phases, verbosity=Verbosity.quiet,
                  suppress_health_check=[HealthCheck.too_slow, HealthCheck.data_too_large,
                                         HealthCheck.large_base_example],
                  print_blob=False)
    test = hypothesis.seed(seed)(st(given(clause.strategy())(body)))
    try:
        test()
    except _Viol:
        pass
    except hypothesis.errors.FailedHealthCheck as e:
        res.harness_errors.append({"error": "health check: %r" % (e,), "tb": ""})
    except hypothesis.errors.Unsatisfiable as e:
        res.harness_errors.append({"error": "unsatisfiable: %r" % (e,), "tb": ""})
    res.wall = time.time() - t0
    return res, last_fail
