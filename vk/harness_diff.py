"""Harness for the diffusion models: scenario dict -> Single/Homogenization model with stub thermodynamics."""
import math

import numpy as np

R_GAS = 8.314


class StepCap(Exception):
    pass


class StubTherm:
    """Smooth, positive (definite) composition- and temperature-dependent interdiffusivity; logs every call."""

    def __init__(self, elements, phases, D0=1e-12, Q=50e3, a=0.5, cross=0.1):
        self.elements = list(elements) + ["VA"]
        self.numElements = len(elements)
        self.phases = list(phases)
        self.D0, self.Q, self.a, self.cross = D0, Q, a, cross
        self.log = []
        self.cleared = 0

    def clearCache(self):
        self.cleared += 1

    def getInterdiffusivity(self, x, T, removeCache=True, phase=None):
        x = np.atleast_1d(np.asarray(x, dtype=float))
        T = float(np.squeeze(T))
        self.log.append((x.copy(), T))
        base = self.D0 * math.exp(-self.Q / (R_GAS * T))
        if len(x) == 1:
            return base * (1 + self.a * x[0])
        n = len(x)
        D = np.eye(n) * base
        for i in range(n):
            D[i, i] *= (1 + self.a * x[i] + 0.3 * i)
            for j in range(n):
                if i != j:
                    D[i, j] = base * self.cross * (x[i] + 0.05)
        return D


def synthetic_homogenization(nall, M0, Q):
    """Replacement for kawin.diffusion.Homogenization.computeHomogenizationFunction: ideal-solution chemical
    potentials and Arrhenius mobilities with a mild composition dependence (N, nall) each."""
    M0 = np.asarray(M0, dtype=float)
    Q = np.asarray(Q, dtype=float)

    def f(therm, x, T, params, hashTable=None):
        x = np.atleast_2d(np.asarray(x, dtype=float))
        T = np.atleast_1d(np.asarray(T, dtype=float))
        full = np.concatenate([1 - np.sum(x, axis=1, keepdims=True), x], axis=1)
        full = np.clip(full, 1e-300, None)
        mu = R_GAS * T[:, None] * np.log(full)
        mob = M0[None, :] * np.exp(-Q[None, :] / (R_GAS * T[:, None])) * (1 + 0.5 * full) * full
        return mob, mu
    return f


def temperature_fn(spec):
    kind = spec[0]
    if kind == "const":
        return lambda z, t: spec[1] * np.ones(len(np.atleast_1d(z)))
    if kind == "array":
        hrs, Ts = np.array(spec[1], float), np.array(spec[2], float)
        return lambda z, t: np.interp(t / 3600, hrs, Ts, Ts[0], Ts[-1]) * np.ones(len(np.atleast_1d(z)))
    if kind == "field":
        T0, gz, gt, zspan = spec[1:]
        return lambda z, t: T0 + gz * (np.atleast_1d(z) / zspan) + gt * t
    raise ValueError(kind)


def profile_fn(spec):
    a, b, k, L = spec
    return lambda z: a + b * np.sin(k * math.pi * np.asarray(z) / L) ** 2


def build(sc, record=True):
    from kawin.diffusion import SinglePhaseModel, HomogenizationModel
    from kawin.diffusion.DiffusionParameters import BoundaryConditions
    els = sc["elements"]
    zl = sc["zlim"]
    therm = StubTherm(els, ["ALPHA"], **sc.get("stub", {}))
    cls = SinglePhaseModel if sc["model"] == "single" else HomogenizationModel
    T = sc["T"]
    tapi = sc.get("T_api", "model")         # "model": model-level setters; "ctor": parameter object given to the constructor;
    kw = {}                                 # "params": typed setters of the model's parameter object, after the schedules in T_prior
    targs = (T[1],) if T[0] == "const" else (T[1], T[2]) if T[0] == "array" else (temperature_fn(T),)
    if tapi == "ctor":
        from kawin.diffusion.DiffusionParameters import TemperatureParameters
        kw["temperatureParameters"] = TemperatureParameters(*targs)
    m = cls(zl, sc["N"], els, ["ALPHA"], thermodynamics=therm, record=record, **kw)
    for Tp in sc.get("T_prior", []) if tapi != "ctor" else []:
        if Tp[0] == "const":
            m.setTemperature(Tp[1])
        elif Tp[0] == "array":
            m.setTemperatureArray(Tp[1], Tp[2])
        else:
            m.setTemperatureFunction(temperature_fn(Tp))
    if tapi == "params":
        tp = m.temperatureParameters
        (tp.setIsothermalTemperature if T[0] == "const" else tp.setTemperatureArray if T[0] == "array" else tp.setTemperatureFunction)(*targs)
    elif tapi == "model":
        if T[0] == "const":
            m.setTemperature(T[1])
        elif T[0] == "array":
            m.setTemperatureArray(T[1], T[2])
        else:
            m.setTemperatureFunction(temperature_fn(T))
    L = zl[1] - zl[0]
    api = sc.get("api", "parameters")      # "model": the model-level wrapper functions where one exists for the request
    for e in els[1:]:
        steps = sc["profile"][e]
        if api == "model" and len(steps) == 1:
            st_ = steps[0]
            k = st_[0]
            if k == "linear":
                m.setCompositionLinear(st_[1], st_[2], element=e)
            elif k == "step":
                m.setCompositionStep(st_[1], st_[2], zl[0] + st_[3] * L, element=e)
            elif k == "single":
                m.setCompositionSingle(st_[1], zl[0] + st_[2] * L, element=e)
            elif k == "bounded":
                m.setCompositionInBounds(st_[1], zl[0] + st_[2] * L, zl[0] + st_[3] * L, element=e)
            elif k == "function":
                m.setCompositionFunction(profile_fn([st_[1], st_[2], st_[3], L]), element=e)
            elif k == "data":
                m.setCompositionProfile([zl[0] + f * L for f in st_[1]], st_[2], element=e)
            steps = []
        else:
            m.compositionProfile.clearCompositionBuildSteps(e)
        for st_ in steps:
            k = st_[0]
            if k == "linear":
                m.compositionProfile.addLinearCompositionStep(e, st_[1], st_[2])
            elif k == "step":
                m.compositionProfile.addStepCompositionStep(e, st_[1], st_[2], zl[0] + st_[3] * L)
            elif k == "single":
                m.compositionProfile.addSingleCompositionStep(e, st_[1], zl[0] + st_[2] * L)
            elif k == "bounded":
                m.compositionProfile.addBoundedCompositionStep(e, st_[1], zl[0] + st_[2] * L, zl[0] + st_[3] * L)
            elif k == "function":
                m.compositionProfile.addFunctionCompositionStep(e, profile_fn([st_[1], st_[2], st_[3], L]))
            elif k == "data":
                zs = [zl[0] + f * L for f in st_[1]]
                m.compositionProfile.addProfileCompositionStep(e, st_[2], zs)
        bc = sc["bc"][e]
        if e not in sc.get("bc_default", ()):       # elements listed there rely on the model's default (closed) boundaries
            if api == "model":
                m.setBC(bc[0], bc[1], bc[2], bc[3], element=e)
            else:
                m.boundaryConditions.setLeftBoundaryCondition(["flux", "composition"][bc[0]] if sc.get("bc_names") else bc[0], bc[1], e)
                m.boundaryConditions.setRightBoundaryCondition(["flux", "composition"][bc[2]] if sc.get("bc_names") else bc[2], bc[3], e)
    if "cache" in sc:
        m.useCache(sc["cache"])
    if "hash_s" in sc:
        m.setHashSensitivity(sc["hash_s"])
    if sc["model"] == "homog":
        m.setMobilityFunction(sc.get("homog_fn", "wiener upper"))
        m.setIdealEps(sc.get("eps", 0.05))
    return m, therm


class CapIter:
    def __init__(self, iterator, cap):
        from kawin.solver.Iterators import ExplicitEulerIterator, RK4Iterator
        self.inner = {"euler": ExplicitEulerIterator, "rk4": RK4Iterator}[iterator]
        self.cap, self.steps = cap, 0
        self.stage_times = []
        self.last = None

    def __call__(self, f, t, X_old, updateX):
        if self.steps >= self.cap:
            raise StepCap()
        times = []

        def f2(tt, x, getDt=False):
            times.append(float(tt))
            return f(tt, x, getDt) if getDt else f(tt, x)
        r = self.inner(f2, t, X_old, updateX)
        self.steps += 1
        self.last = {"t": float(t), "dt": float(r[1]), "stages": times}
        self.stage_times.append(times)
        return r
