"""Per-step oracles for C01 (solute conservation) and C02 (statistics are moments), evaluated by an
Observer on the StepTap snapshot.  Written from the property statements, not from the code."""
import math

import numpy as np

from . import harness_kwn as H

EPS = np.finfo(float).eps


def molar_volume(v):
    from kawin.Constants import AVOGADROS_NUMBER as AVOG   # kawin's own rounded constant (6.022e23): the conversion convention is an input, not the property
    val, kind, apc = v
    if kind == "VM":
        return val
    if kind == "VA":
        return val * AVOG / apc
    return val ** 3 * AVOG / apc


class StepOracle:
    def __init__(self, sc, out, do_mass=True, do_moments=True):
        self.sc, self.out = sc, out
        self.do_mass, self.do_moments = do_mass, do_moments
        self.binary = sc["system"] in ("toy_bin", "alzr")
        self.x0 = np.atleast_1d(np.array(sc["x0"], dtype=float))
        self.vmA = molar_volume(sc["VmA"])
        self.vmB = [molar_volume(p["VmB"]) for p in sc["phases"]]
        self.nsteps = 0
        self.populated_steps = 0
        self.flags = set()
        self.failed = set()
        self.min_comp = (sc.get("constraints") or {}).get("minComposition", 0)
        self.prev_volfrac = None

    def _fail(self, kind, msg, **data):
        if kind in self.failed:
            return
        self.failed.add(kind)
        self.out.fail(kind, msg, **data)

    def volume_factor(self, model, p):
        spec = self.sc["phases"][p]
        site = spec.get("site", "bulk")
        nuc = model.precipitateParameters[p].nucleation
        if site in ("bulk", "dislocations"):
            return 4 * math.pi / 3
        k = self.sc.get("gbe", 0.3) / (2 * spec["gamma"])
        ref = H.volume_factor_ref(site, k)
        if ref is not None:
            return ref
        return float(nuc.volumeFactor)     # edges / corners: identities checked in C14

    def xbeta_classes(self, model, snap, p, nclasses):
        """Precipitate composition per class (mean of the two class boundaries), shape (classes, elements)."""
        spec = self.sc["phases"][p]
        if self.sc["system"] in ("toy_bin", "toy_multi", "alzr") and not spec.get("kbeta"):      # stoichiometric precipitates: the backend constant
            xb = np.atleast_1d(np.array(spec["xb"], dtype=float))
            return np.repeat(xb[np.newaxis, :], nclasses, axis=0), "backend_constant"
        xb = snap["xbeta"][p]
        return 0.5 * (xb[:-1] + xb[1:]), "snapshot"

    def __call__(self, model, snap):
        self.nsteps += 1
        pd = model.pData
        n = pd.n
        cons = model.constraints
        nph = len(self.sc["phases"])
        t_new = pd.time[n]
        fs, fconcs = [], []
        sentinel_vf = 0.0
        zero_vf = 0.0
        skip_mass = False
        any_pop = False
        for p in range(nph):
            b = snap["bounds"][p]
            x = snap["x_new"][p].copy()
            if len(x) != len(b) - 1:
                self._fail("snapshot_shape", "step %d phase %d: state has %d classes, grid %d" % (n, p, len(x), len(b) - 1))
                return
            R = 0.5 * (b[:-1] + b[1:])
            x[: int(snap["rdf_index"][p]) + 1] = 0
            x[R < cons.minRadius] = 0
            # a class that over-dissolved within the step (allowed below the dissolution index) is empty, not negatively populated:
            # the distribution of the step is the non-negative part (KF-C03-3: the recorded statistics used to include such classes)
            if np.any(x < 0):
                self.flags.add("negative_classes_truncated")
                x[x < 0] = 0
            if not np.all(np.isfinite(x)):
                self.flags.add("nonfinite_state")
                skip_mass = True
                continue
            N = float(np.sum(x))
            m1 = float(np.sum(x * R))
            m3 = float(np.sum(x * R ** 3))
            vmB_now = self.vmB[p]
            for k in range(int(getattr(model, "_vk_call", 0))):      # molar volume set again between solve calls (scenario key VmB_calls): the value in force
                ch = (self.sc.get("VmB_calls") or [])[k] if k < len(self.sc.get("VmB_calls") or []) else None
                if ch and str(p) in ch:
                    vmB_now = molar_volume(ch[str(p)])
            volRatio = self.vmA / vmB_now
            F = self.volume_factor(model, p)
            scaleN = float(np.sum(np.abs(x)))
            tolN = 64 * len(x) * EPS * max(scaleN, 1e-300)
            if N < cons.minNucleateDensity:
                expN, expR, expF = N, 0.0, 0.0
                fconc = np.zeros(len(self.x0))
            else:
                expN, expR = N, m1 / N
                expF = min(volRatio * F * m3, 1.0)
                if pd.volFrac[n - 1, p] == 1:
                    expF = 1.0
                xb, src = self.xbeta_classes(model, snap, p, len(x))
                fconc = np.array([volRatio * F * float(np.sum(x * R ** 3 * xb[:, e])) for e in range(len(self.x0))])
                any_pop = any_pop or expF > 1e-6
                tab = snap["xbeta"][p]
                if tab is not None and len(tab) == len(x) + 1:
                    popd = np.nonzero(x)[0]
                    if len(popd) and (np.any(tab[popd] == -1) or np.any(tab[popd + 1] == -1)):
                        sentinel_vf += abs(volRatio * F * m3)
                        self.flags.add("sentinel_composition_in_populated_class")
                    stage_neg = any(float(s_["dG"][p]) < 0 for s_ in snap["stages"]) if snap["stages"] else False
                    if len(popd) and not np.any(tab) and stage_neg and not self.binary:
                        zero_vf += abs(volRatio * F * m3)
                        self.flags.add("composition_table_zeroed_by_transient_stage")
            fs.append(expF)
            fconcs.append(fconc)
            if self.do_moments:
                gotN, gotR, gotF = float(pd.precipitateDensity[n, p]), float(pd.Ravg[n, p]), float(pd.volFrac[n, p])
                if abs(gotN - expN) > tolN + 1e-9 * abs(expN):
                    self._fail("density_not_zeroth_moment", "step %d phase %d: recorded number density %r, zeroth moment of the distribution %r" % (n, p, gotN, expN), step=int(n))
                if abs(gotR - expR) > 1e-9 * abs(expR) + 1e-30:
                    self._fail("radius_not_moment_ratio", "step %d phase %d: recorded mean radius %r, first/zeroth moment %r" % (n, p, gotR, expR), step=int(n))
                if abs(gotF - expF) > 1e-9 * abs(expF) + 1e-30:
                    self._fail("volfrac_not_third_moment", "step %d phase %d: recorded volume fraction %r, scaled third moment %r" % (n, p, gotF, expF), step=int(n))
                # number density step bound
                J = max(float(s["nucRate"][p]) for s in snap["stages"]) if snap["stages"] else 0.0
                J = max(J, 0.0)
                Nheld = float(np.sum(snap["x_old"][p]))
                Nraw = float(np.sum(snap["x_new"][p]))
                bound = snap["dt"] * J * (1 + 1e-9) + 64 * len(x) * EPS * max(float(np.sum(np.abs(snap["x_old"][p]))), float(np.sum(np.abs(snap["x_new"][p]))), 1e-300)
                # the reported density itself (not only the conservative raw sum): a class drained through both faces beyond its content
                # used to hand its neighbours more particles than it held (KF-C07-3) - particles out of nothing, no nucleation involved
                if gotN - Nheld > bound:
                    self._fail("density_grows_beyond_nucleation_reported", "step %d phase %d: reported density rose by %r (raw %r) in dt=%r, nucleation allows at most %r" % (n, p, gotN - Nheld, Nraw - Nheld, snap["dt"], snap["dt"] * J), step=int(n))
                if Nraw - Nheld > bound:
                    self._fail("density_grows_beyond_nucleation", "step %d phase %d: number density rose by %r in dt=%r, nucleation allows at most %r (max stage rate %r)" % (n, p, Nraw - Nheld, snap["dt"], snap["dt"] * J, J), step=int(n))
                if J == 0 and Nheld > 0:
                    self.flags.add("zero_nucleation_populated")
                # recorded PSD history
                pbm = model.PBM[p]
                if pbm._record and pbm._recordedTime is not None and len(pbm._recordedTime) > 1 and pbm._recordedTime[-1] == t_new:
                    rb = pbm._recordedBins[-1]
                    nzb = len(np.nonzero(rb)[0])
                    if nzb >= 2:
                        bb = rb[:nzb]
                        rp = pbm._recordedPSD[-1][:nzb - 1]
                        Rr = 0.5 * (bb[1:] + bb[:-1])
                        self.flags.add("psd_record_checked")
                        if len(bb) != len(b) or not np.allclose(bb, b, rtol=1e-12, atol=0):
                            self._fail("psd_record_grid", "step %d phase %d: recorded PSD grid differs from the grid the step was computed on" % (n, p), step=int(n))
                        else:
                            small = float(np.sum(np.where(x < 1, np.abs(x), 0.0)))   # classes below one particle, incl. classes driven negative
                            if abs(float(np.sum(rp)) - N) > small + tolN + 1e-9 * abs(N):
                                self._fail("psd_record_density", "step %d phase %d: recorded PSD row sums to %r, reported density %r (classes <1 hold %r)" % (n, p, float(np.sum(rp)), N, small), step=int(n))
                            small3 = float(np.sum(np.where(x < 1, np.abs(x) * R ** 3, 0.0)))
                            if abs(float(np.sum(rp * Rr ** 3)) - m3) > small3 + 1e-9 * abs(m3) + 1e-300:
                                self._fail("psd_record_volume", "step %d phase %d: third moment of the recorded PSD row %r vs %r" % (n, p, float(np.sum(rp * Rr ** 3)), m3), step=int(n))
        if any_pop:
            self.populated_steps += 1
        if self.do_mass and not skip_mass and len(fs) == nph:
            ftot = float(np.sum(fs))
            got = np.atleast_1d(np.array(pd.composition[n], dtype=float))
            gotfc = np.array(pd.fconc[n], dtype=float).reshape(nph, -1)
            for p in range(nph):
                if np.any(np.abs(gotfc[p] - fconcs[p]) > 1e-9 * np.abs(fconcs[p]) + 1e-30):
                    self._fail("precipitate_content_mismatch", "step %d phase %d: recorded precipitate solute content %r, sum of volume x composition over the distribution %r" % (n, p, gotfc[p].tolist(), fconcs[p].tolist()), step=int(n),
                               sentinel_vf=sentinel_vf, zero_vf=zero_vf, dev=float(np.max(np.abs(gotfc[p] - fconcs[p]))))
            if ftot < 1:
                exp = (self.x0 - np.sum(np.array(fconcs), axis=0)) / (1 - ftot)
                for e in range(len(self.x0)):
                    if exp[e] < 0:
                        self.flags.add("clamp_engaged")
                        if got[e] != self.min_comp:
                            self._fail("clamp_value", "step %d element %d: balance gives %r < 0 but recorded composition %r is not the configured minimum %r" % (n, e, exp[e], got[e], self.min_comp), step=int(n))
                    else:
                        scale = max(abs(self.x0[e]), abs(exp[e]))
                        # cancellation in x0 - fconc: absolute error ~ eps * x0 / (1-f)
                        tol = 1e-9 * scale + 256 * EPS * abs(self.x0[e]) / (1 - ftot)
                        if not abs(got[e] - exp[e]) <= tol:
                            self._fail("solute_not_conserved", "step %d element %d: x0=%r, matrix %r, precipitate fraction %r: balance requires matrix composition %r (diff %.3e)" % (n, e, self.x0[e], got[e], ftot, exp[e], got[e] - exp[e]), step=int(n),
                                       sentinel_vf=sentinel_vf, zero_vf=zero_vf, dev=float(abs(got[e] - exp[e]) * (1 - ftot)))
            else:
                self.flags.add("fraction_saturated")

    def finish(self, res):
        out = self.out
        m = res["model"]
        if self.do_moments and not out.viol:
            # the recorded distributions once more, at the end of the run: a row written at step k must still be the distribution of
            # step k (later steps must not write into it)
            pd = m.pData
            times = np.asarray(pd.time, dtype=float)
            for p, pbm in enumerate(m.PBM):
                if not getattr(pbm, "_record", False) or pbm._recordedTime is None or len(pbm._recordedTime) < 2:
                    continue
                for j in range(1, len(pbm._recordedTime)):
                    hit = np.nonzero(times == pbm._recordedTime[j])[0]
                    if len(hit) != 1:
                        continue
                    i = int(hit[0])
                    Nrec = float(np.sum(pbm._recordedPSD[j]))
                    Nrep = float(pd.precipitateDensity[i, p])
                    nb = len(np.nonzero(pbm._recordedBins[j])[0])
                    if abs(Nrec - Nrep) > max(nb, 1) * 1.0 + 1e-9 * abs(Nrep):       # up to one particle per class (documented removal)
                        self._fail("psd_record_overwritten", "phase %d: the distribution recorded for t=%r sums to %r at the end of the run, the density reported for that step is %r" % (p, float(times[i]), Nrec, Nrep), step=i)
                        break
                self.flags.add("psd_records_rechecked_at_end")
        if res["truncated"]:
            out.label("truncated")
        for f in sorted(self.flags):
            out.label(f)
        out.label(self.sc["iterator"], "phases_%d" % len(self.sc["phases"]), "T_" + self.sc["T"][0], "calls_%d" % len(self.sc["durations"]))
        for p in self.sc["phases"]:
            out.label("site_" + p.get("site", "bulk").replace(" ", "_"), "shape_" + p.get("shape", "sphere"))
        out.info["steps"] = self.nsteps
        out.info["populated_steps"] = self.populated_steps
        out.nt(self.populated_steps >= 10)
