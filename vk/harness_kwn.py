"""Simulation harness for PrecipitateModel: scenario dict -> model, StepTap iterator, Observer.

Only public extension points are used: a custom iterator passed as `solverType`, a coupling
model registered with addCouplingModel, a duck-typed thermodynamics object.
"""
import math
import os

import numpy as np

from . import toy

TESTDB = None


class StepCap(Exception):
    """Raised by StepTap *before* the inner iterator once the step cap is reached."""


def make_temperature(spec):
    """spec: ['const', T] | ['array', [hours...], [K...]] | ['func', [hours...], [K...]] (function implementing the same interpolation)."""
    kind = spec[0]
    if kind == "const":
        return (spec[1],)
    if kind == "array":
        return (list(spec[1]), list(spec[2]))
    if kind == "func":
        hrs, Ts = np.array(spec[1], dtype=float), np.array(spec[2], dtype=float)
        return (lambda t: np.interp(t / 3600, hrs, Ts, Ts[0], Ts[-1]),)
    raise ValueError(kind)


def schedule_value(spec, t):
    if spec[0] == "const":
        return spec[1]
    hrs, Ts = np.array(spec[1], dtype=float), np.array(spec[2], dtype=float)
    return np.interp(t / 3600, hrs, Ts, Ts[0], Ts[-1])


def build_therm(sc):
    sysn = sc["system"]
    if sysn == "toy_bin":
        phases = {p["name"]: {"xb": p["xb"], "dH": p["dH"], "dS": p["dS"], "kbeta": p.get("kbeta", 0.0)} for p in sc["phases"]}
        return toy.ToyBinary(phases, D0=sc["D0"], Q=sc["Q"])
    if sysn == "toy_multi":
        phases = {p["name"]: {"xb": p["xb"], "dH": p["dH"], "dS": p["dS"]} for p in sc["phases"]}
        return toy.ToyMulti(["A"] + sc["solutes"], phases, D0=sc["D0"], Q=sc["Q"])
    if sysn in ("alzr", "nicral", "almgsi"):
        from . import realdb
        th = realdb.get({"alzr": "alzr:tangent", "nicral": "nicral_rev:tangent", "almgsi": "almgsi:tangent"}[sysn])
        th.clearCache()
        return th
    raise ValueError(sysn)


def _typed_set(tp, targs):
    if len(targs) == 2:
        tp.setTemperatureArray(*targs)
    elif callable(targs[0]):
        tp.setTemperatureFunction(targs[0])
    else:
        tp.setIsothermalTemperature(targs[0])


def _strain_objects(p):
    from kawin.precipitation.parameters.ElasticFactors import StrainEnergy
    if p.get("elastic"):
        el = p["elastic"]
        se = StrainEnergy()
        se.setEigenstrain(list(el["eig"]))
        se.setModuli(G=el["G"], nu=el["nu"])
        se.setShape("ellipsoid")
        return se, True
    if p.get("strain"):
        se = StrainEnergy()
        se.setConstantElasticEnergy(p["strain"])
        return se, False
    return None, False


def _build_from_objects(sc, therm, names, elements, binary, kw, targs, prior, temperature_entry):
    """The same configuration entered through the parameter objects handed to the constructor (MatrixParameters,
    PrecipitateParameters, Constraints) instead of the model-level setters; sc['obj_order'] varies the order in which the
    matrix object receives volume, composition and site densities (its update() hooks depend on what is known already)."""
    from kawin.precipitation import PrecipitateModel
    from kawin.precipitation.PrecipitationParameters import MatrixParameters, PrecipitateParameters, Constraints
    mp = MatrixParameters(list(elements))
    va = sc["VmA"]
    # (multicomponent: the composition is handed over as an ndarray the caller keeps - see run(): it may be reused afterwards)
    x0_ref = None if binary else np.array(sc["x0"], dtype=float)
    steps = {"vol": lambda: mp.volume.setVolume(va[0], va[1], va[2]),
             "comp": lambda: setattr(mp, "initComposition", sc["x0"] if binary else x0_ref),
             "sites": (lambda: mp.nucleationSites.setNucleationDensity(**sc["nucdens"])) if "nucdens" in sc else (lambda: None)}
    for key in {0: ("vol", "comp", "sites"), 1: ("comp", "vol", "sites"), 2: ("sites", "comp", "vol")}[sc.get("obj_order", 0) % 3]:
        steps[key]()
    if "gbe" in sc:
        mp.GBenergy = sc["gbe"]
    opts = sc.get("options") or {}
    if "theta" in opts:
        mp.theta = opts["theta"]
    if "effectiveDiffusion" in opts:
        mp.effectiveDiffusion.isEnabled = opts["effectiveDiffusion"]
    pps = []
    for p in sc["phases"]:
        pp = PrecipitateParameters(p["name"])
        pp.gamma = p["gamma"]
        vb = p["VmB"]
        pp.volume.setVolume(vb[0], vb[1], vb[2])
        shape = p.get("shape", "sphere")
        if shape != "sphere":
            pp.shapeFactor.setPrecipitateShape(shape, p.get("ar", 1))
        pp.nucleation.setNucleationType(p.get("site", "bulk"))
        se, calc = _strain_objects(p)
        if se is not None:
            pp.strainEnergy = se
            pp.calculateAspectRatio = calc
        pps.append(pp)
    for child, parents in (opts.get("parents") or {}).items():
        pps[names.index(child)].parentPhases = [names.index(q) for q in parents]
    cons = Constraints()
    for k_, v_ in (sc.get("constraints") or {}).items():
        setattr(cons, k_, v_)
    m = PrecipitateModel(thermodynamics=therm, matrixParameters=mp, precipitateParameters=pps, constraints=cons, **kw)
    for how, spec in prior:
        m.setTemperature(*make_temperature(spec))
    if temperature_entry == "typed":
        _typed_set(m.temperatureParameters, targs)
    elif temperature_entry not in ("constructor", "typed_ctor"):
        m.setTemperature(*targs)
    if "betaBinary" in opts:
        m.setBetaBinary(opts["betaBinary"])
    pb = sc["pbm"]
    m.setPBMParameters(cMin=pb["cmin"], cMax=pb["cmax"], bins=pb["bins"], minBins=pb["minBins"], maxBins=pb["maxBins"], adaptive=pb.get("adaptive", True))
    for nm in sc.get("record_psd", []):
        m.setPSDrecording(True, phase=nm)
    m._vk_x0_ref = x0_ref
    return m


def build_model(sc, therm=None, temperature_entry="setter"):
    """Builds a PrecipitateModel from a scenario dict.  Returns (model, therm)."""
    from kawin.precipitation import PrecipitateModel
    from kawin.precipitation.PrecipitationParameters import TemperatureParameters
    if therm is None:
        therm = build_therm(sc)
    names = [p["name"] for p in sc["phases"]]
    binary = sc["system"] in ("toy_bin", "alzr")
    elements = ["B"] if binary else list(sc.get("solutes", ["B", "C"]))
    if sc.get("elements"):
        elements = list(sc["elements"])
    kw = {}
    targs = make_temperature(sc["T"])
    prior = list(sc.get("T_prior", [])) if temperature_entry in ("history", "typed") else []
    if temperature_entry == "constructor":
        kw["temperatureParameters"] = TemperatureParameters(*targs)
    elif temperature_entry == "typed_ctor":       # empty parameter object configured through its typed setter, then handed to the constructor
        tp = TemperatureParameters()
        _typed_set(tp, targs)
        kw["temperatureParameters"] = tp
    elif prior and prior[0][0] == "ctor":
        kw["temperatureParameters"] = TemperatureParameters(*make_temperature(prior.pop(0)[1]))
    if sc.get("api") == "objects":
        return _build_from_objects(sc, therm, names, elements, binary, kw, targs, prior, temperature_entry), therm
    m = PrecipitateModel(phases=names, elements=elements, thermodynamics=therm, **kw)
    m.setInitialComposition(sc["x0"] if binary else list(sc["x0"]))
    for how, spec in prior:            # earlier schedules, each replaced by the next: only the last one set may matter
        m.setTemperature(*make_temperature(spec))
    if temperature_entry == "typed":              # typed setter called on the model's parameter object (after any earlier schedules)
        _typed_set(m.temperatureParameters, targs)
    elif temperature_entry not in ("constructor", "typed_ctor"):
        m.setTemperature(*targs)
    va = sc["VmA"]
    m.setVolumeAlpha(va[0], va[1], va[2])
    if "gbe" in sc:
        m.setGrainBoundaryEnergy(sc["gbe"])
    if "nucdens" in sc:
        m.setNucleationDensity(**sc["nucdens"])
    for p in sc["phases"]:
        nm = p["name"]
        m.setInterfacialEnergy(p["gamma"], phase=nm)
        vb = p["VmB"]
        m.setVolumeBeta(vb[0], vb[1], vb[2], phase=nm)
        shape = p.get("shape", "sphere")
        if shape != "sphere":
            m.setPrecipitateShape(shape, phase=nm, ratio=p.get("ar", 1))
        m.setNucleationSite(p.get("site", "bulk"), phase=nm)
        if p.get("elastic"):
            from kawin.precipitation.parameters.ElasticFactors import StrainEnergy
            el = p["elastic"]
            se = StrainEnergy()
            se.setEigenstrain(list(el["eig"]))
            se.setModuli(G=el["G"], nu=el["nu"])
            se.setShape("ellipsoid")
            m.setStrainEnergy(se, phase=nm, calculateAspectRatio=True)
        if p.get("strain"):
            from kawin.precipitation.parameters.ElasticFactors import StrainEnergy
            se = StrainEnergy()
            se.setConstantElasticEnergy(p["strain"])
            m.setStrainEnergy(se, phase=nm)
    opts = sc.get("options") or {}
    if "betaBinary" in opts:
        m.setBetaBinary(opts["betaBinary"])
    if "effectiveDiffusion" in opts:
        m.enableEffectiveDiffusionDistance(opts["effectiveDiffusion"])
    if "theta" in opts:
        m.setTheta(opts["theta"])
    for child, parents in (opts.get("parents") or {}).items():
        m.setParentPhases(child, parents)
    pb = sc["pbm"]
    m.setPBMParameters(cMin=pb["cmin"], cMax=pb["cmax"], bins=pb["bins"], minBins=pb["minBins"], maxBins=pb["maxBins"], adaptive=pb.get("adaptive", True))
    if sc.get("constraints"):
        m.setConstraints(**sc["constraints"])
    for nm in sc.get("record_psd", []):
        m.setPSDrecording(True, phase=nm)
    return m, therm


class StepTap:
    """Custom iterator: wraps a built-in iterator, enforces a step cap, records stage information
    and snapshots what the model is about to post-process."""

    def __init__(self, model, iterator="euler", cap=400):
        from kawin.solver.Iterators import ExplicitEulerIterator, RK4Iterator
        self.inner = {"euler": ExplicitEulerIterator, "rk4": RK4Iterator}[iterator]
        self.model = model
        self.cap = cap
        self.steps = 0
        self.snap = None
        self.capped = False

    def __call__(self, f, t, X_old, updateX):
        if self.steps >= self.cap:
            self.capped = True
            raise StepCap()
        m = self.model
        stages = []

        def f2(tt, x, getDt=False):
            r = f(tt, x, getDt) if getDt else f(tt, x)
            y = m._currY
            stages.append({"t": float(tt), "nucRate": np.array(y.nucRate[0], dtype=float).copy(), "dG": np.array(y.drivingForce[0], dtype=float).copy()})
            return r

        X_new, dt = self.inner(f2, t, X_old, updateX)
        self.steps += 1
        bins = [pb.bins for pb in m.PBM]
        xs, k = [], 0
        for b in bins:
            xs.append(np.array(X_new[k:k + b], dtype=float).copy())
            k += b
        olds, k = [], 0
        for b in bins:
            olds.append(np.array(X_old[k:k + b], dtype=float).copy())
            k += b
        self.snap = {
            "t": float(t), "dt": float(dt), "stages": stages, "x_new": xs, "x_old": olds,
            "bounds": [pb.PSDbounds.copy() for pb in m.PBM],
            "xbeta": [None if xb is None else np.array(xb, dtype=float).copy() for xb in getattr(m, "PSDXbeta", [None] * len(bins))],
            "rdf_index": np.array(m.RdrivingForceIndex).copy(),
        }
        return X_new, dt


class Observer:
    """Coupling model: called after every accepted step with the model; forwards (model, snapshot) to callbacks."""

    def __init__(self, tap, callbacks):
        self.tap = tap
        self.callbacks = callbacks
        self.nsteps = 0

    def updateCoupledModel(self, model):
        self.nsteps += 1
        for cb in self.callbacks:
            cb(model, self.tap.snap)


def run(sc, callbacks=(), model=None, therm=None, temperature_entry="setter", extra_couplings=()):
    """Runs the scenario's solve calls under the step cap.  Returns dict(model, therm, tap, truncated, error)."""
    if model is None:
        model, therm = build_model(sc, therm=therm, temperature_entry=temperature_entry)
    tap = StepTap(model, sc.get("iterator", "euler"), sc.get("cap", 400))
    obs = Observer(tap, list(callbacks))
    for c in extra_couplings:
        model.addCouplingModel(c)
    model.addCouplingModel(obs)
    truncated = False
    completed_calls = 0
    rows = [len(model.pData.time)]
    for icall, dur in enumerate(sc["durations"]):
        if icall > 0 and sc.get("reuse_x0_array") and getattr(model, "_vk_x0_ref", None) is not None:
            # the caller reuses its own composition array for something else between two solve calls (next alloy of a sweep):
            # the running model must keep the alloy content it was started with
            model._vk_x0_ref *= 1.25
        model._vk_call = icall
        if icall > 0 and sc.get("VmB_calls") and len(sc["VmB_calls"]) >= icall and sc["VmB_calls"][icall - 1]:
            # the molar volume of a precipitate phase set again between two solve calls (a parameter study continued on the same model)
            for pidx, spec in sc["VmB_calls"][icall - 1].items():
                model.setVolumeBeta(spec[0], spec[1], spec[2], phase=sc["phases"][int(pidx)]["name"])
        if icall > 0 and sc.get("T_calls") and len(sc["T_calls"]) >= icall and sc["T_calls"][icall - 1] is not None:
            # a new schedule handed to the setter between two solve calls (two-step ageing done by hand): in force from this call on
            model.setTemperature(*make_temperature(sc["T_calls"][icall - 1]))
        try:
            model.solve(dur, solverType=tap, minDtFrac=sc.get("minDtFrac", 1e-8), maxDtFrac=sc.get("maxDtFrac", 1))
            completed_calls += 1
            rows.append(len(model.pData.time))
        except ValueError as e:
            # kawin refuses an energy ratio gbEnergy/(2 gamma) above the limit of the site type; the scenario's own ratio is below it
            # for every phase, so a refusal means the model is not using the energies it was configured with
            from .scen import KMAX
            from .core import KawinRefusal
            gbe = sc.get("gbe")
            if "energy ratio is too large" in str(e) and gbe is not None and all(gbe / (2 * p["gamma"]) < 0.999 * KMAX[p["site"]] for p in sc["phases"] if p.get("site") in KMAX):
                raise KawinRefusal("admissible_energy_ratio_refused", "grain-boundary energy %r with interfacial energies %r (ratios %r, all admissible) refused by the model: %s" % (gbe, [p["gamma"] for p in sc["phases"]], [gbe / (2 * p["gamma"]) for p in sc["phases"]], str(e)[:160]))
            raise
        except StepCap:
            truncated = True
            rows.append(len(model.pData.time))
            break
    return {"model": model, "therm": therm, "tap": tap, "obs": obs, "truncated": truncated, "completed_calls": completed_calls, "rows_after_call": rows}


# ---------------------------------------------------------------- reference geometry

def volume_factor_ref(site, k):
    """Independent closed forms where available (bulk/dislocations, grain boundary lens); None otherwise."""
    if site in ("bulk", "dislocations"):
        return 4 * math.pi / 3
    if site == "grain boundaries":
        return (2 * math.pi / 3) * (2 - 3 * k + k ** 3)
    return None
