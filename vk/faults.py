"""Backend-failure proxies with scripted schedules (fault sequences start after the first valid value)."""
import numpy as np

from . import toy


class FlakyToyMulti(toy.ToyMulti):
    """getGrowthAndInterfacialComposition returns None ('equilibrium did not converge') on scripted call indices;
    impingementFactor falls back to its last value on its own scripted indices, as the real class documents."""

    def __init__(self, *a, growth_faults=(), imp_faults=(), warmup=2, **k):
        super().__init__(*a, **k)
        self.warmup = warmup          # valid results handed out before the schedule starts (model set-up: equilibrium + first growth rate per phase)
        self.growth_faults = set(int(i) for i in growth_faults)
        self.imp_faults = set(int(i) for i in imp_faults)
        self.n_growth_ok = 0      # calls since (and including) the first valid result
        self.n_imp_ok = 0
        self.injected = []        # (channel, call index)
        self._seen_valid_growth = False
        self._seen_valid_imp = False

    def getGrowthAndInterfacialComposition(self, x, T, dG, R, gExtra, precPhase=None, removeCache=False, searchDir=None):
        res = super().getGrowthAndInterfacialComposition(x, T, dG, R, gExtra, precPhase, removeCache, searchDir)
        if res is None:
            return None
        if not self._seen_valid_growth:
            self.warmup -= 1
            if self.warmup <= 0:
                self._seen_valid_growth = True
            return res
        self.n_growth_ok += 1
        if self.n_growth_ok in self.growth_faults:
            self.injected.append(("growth", self.n_growth_ok, float(dG)))
            return None
        return res

    def impingementFactor(self, x, T, precPhase=None, removeCache=False, searchDir=None):
        key = str(precPhase)
        last = self._last.get(key)
        res = super().impingementFactor(x, T, precPhase, removeCache, searchDir)
        if not self._seen_valid_imp:
            if res is not None:
                self._seen_valid_imp = True
            return res
        self.n_imp_ok += 1
        if self.n_imp_ok in self.imp_faults and last is not None:
            self.injected.append(("impingement", self.n_imp_ok, None))
            self._last[key] = last
            return last
        return res


class FlakyToyBinary(toy.ToyBinary):
    """getInterfacialComposition returns the -1 sentinel for every requested size on scripted call indices."""

    def __init__(self, *a, ic_faults=(), planar_none=(), **k):
        super().__init__(*a, **k)
        self.ic_faults = set(int(i) for i in ic_faults)
        self.planar_none = set(int(i) for i in planar_none)     # planar (gExtra = 0, scalar) queries answered with (None, None), as the docstring of the real class words it
        self.n_planar = 0
        self.n_ic = 0
        self.injected = []
        self._seen_valid = False

    def getInterfacialComposition(self, T, gExtra=0, precPhase=None):
        xa, xb = super().getInterfacialComposition(T, gExtra, precPhase)
        if not self._seen_valid:
            if np.any(np.asarray(xa) != -1):
                self._seen_valid = True
            return xa, xb
        # only whole-grid table queries are answered with the sentinel: -1 for larger radii next to valid smaller ones
        # is not something a backend can return (instability is monotone in the Gibbs-Thomson energy)
        model = getattr(self, "model", None)
        if np.ndim(gExtra) == 0 and np.size(xa) == 1:
            # the planar-interface query of the table builder: the model accepts "no result" there both as the -1 sentinel and as None
            self.n_planar += 1
            if self.n_planar in self.planar_none:
                # "no equilibrium found at this temperature": the table query that follows for the same phase fails as well
                # (a valid table next to a failed planar query is not something a backend can return: the planar interface is the most stable)
                self.injected.append(("planar_none", self.n_planar, None))
                self._grid_fails = getattr(self, "_grid_fails", set()) | {str(precPhase)}
                return None, None
            return xa, xb
        if str(precPhase) in getattr(self, "_grid_fails", set()):
            self._grid_fails.discard(str(precPhase))
            return np.squeeze(-1.0 * np.ones(np.shape(xa))), np.squeeze(-1.0 * np.ones(np.shape(xb)))
        if model is None or np.size(xa) not in [pb.bins + 1 for pb in model.PBM]:
            return xa, xb
        self.n_ic += 1
        if self.n_ic in self.ic_faults:
            self.injected.append(("interfacial", self.n_ic, None))
            return np.squeeze(-1.0 * np.ones(np.shape(xa))), np.squeeze(-1.0 * np.ones(np.shape(xb)))
        return xa, xb
