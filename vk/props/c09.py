"""C09 — thermodynamic queries are pure; the diffusion models' composition cache is sound.

Clauses
  hashtable   model-based operation sequences on the HashTable (can be switched off; a retrieved value was stored for
              a composition/temperature that rounds to the same key)
  (query clauses on the shipped databases are added by c09_real when importable)
"""
import numpy as np
from hypothesis import strategies as st

from ..core import Clause, Out

LEVEL = "exploration"
ASSUMPTIONS = [
    "'round to the same key at the configured precision' is read in its weakest form: every coordinate of the stored and the queried (x, T) differ by less than one unit of the configured decimal place",
    "thermodynamic query purity is judged up to the documented 1 J/mol offset (see c09_real)",
]


def check_hash(case):
    from kawin.diffusion.DiffusionParameters import HashTable
    out = Out()
    h = HashTable()
    s = 4
    caching = True
    stored = []          # (x, T, value id)
    toggled = False
    nret = 0
    for k, op in enumerate(case["ops"]):
        name = op[0]
        if name == "sens":
            s = op[1]
            h.setHashSensitivity(s)
            h.clearCache()
            stored = []
        elif name == "cache":
            caching = op[1]
            h.enableCaching(caching)
            toggled = True
        elif name == "clear":
            h.clearCache()
            stored = []
        elif name == "add":
            x, T = np.array(op[1], dtype=float), float(op[2])
            h.addToHashTable(x, T, ("v", k))
            if caching:
                stored.append((x, T, ("v", k)))
        elif name == "get":
            x, T = np.array(op[1], dtype=float), float(op[2])
            x0 = x.copy()
            r = h.retrieveFromHashTable(x, T)
            if x.tobytes() != x0.tobytes():
                out.fail("argument_modified", "retrieveFromHashTable modified the composition array")
            if r is None:
                # a miss is always sound; but an exact repeat of a stored point must hit while caching is on
                if caching and any(np.array_equal(x, sx) and T == sT for sx, sT, _ in stored):
                    out.fail("exact_repeat_missed", "op %d: (x=%r, T=%r) was stored with caching on and precision %d but is not retrieved" % (k, x.tolist(), T, s))
                continue
            nret += 1
            if not caching:
                out.fail("returned_while_disabled", "op %d: caching is switched off but retrieve returned %r for x=%r T=%r" % (k, r, x.tolist(), T), s=s)
                continue
            src = [(sx, sT) for sx, sT, v in stored if v == r]
            if not src:
                out.fail("unknown_value", "op %d: retrieve returned %r which was never stored (or was cleared)" % (k, r))
                continue
            sx, sT = src[-1]
            scale = 10.0 ** s
            if len(sx) != len(x) or np.any(np.abs(sx - x) * scale >= 1 + 1e-9) or abs(sT - T) * scale >= 1 + 1e-9:
                out.fail("unsound_reuse", "op %d: precision %d decimals: value stored for x=%r T=%r was returned for x=%r T=%r" % (k, s, sx.tolist(), sT, x.tolist(), T), s=s)
        out.label("op_" + name)
    out.label("s_%d" % s)
    out.nt(nret > 0 or toggled)
    return out


@st.composite
def _hash_case(draw):
    ne = draw(st.integers(1, 3))
    base_x = [draw(st.floats(0.01, 0.3)) for _ in range(ne)]
    base_T = draw(st.floats(200.0, 2500.0))
    pt = st.tuples(st.lists(st.sampled_from([0.0, 0.0, 1e-9, 1e-7, 1e-5, 1e-4, 1e-3, 1e-2, 0.1]), min_size=ne, max_size=ne),
                   st.sampled_from([0.0, 0.0, 1e-9, 1e-6, 1e-4, 1e-3, 1e-2, 0.5, 1.0, 10.0, 100.0, 437.0]), st.sampled_from([-1.0, 1.0]))

    def mk(p):
        dx, dT, sg = p
        return [[b + sg * d for b, d in zip(base_x, dx)], base_T + sg * dT]
    op = st.one_of(
        pt.map(lambda p: ["add"] + mk(p)),
        pt.map(lambda p: ["get"] + mk(p)),
        pt.map(lambda p: ["get"] + mk(p)),
        st.integers(1, 9).map(lambda s: ["sens", s]),
        st.booleans().map(lambda b: ["cache", b]),
        st.just(["clear"]),
    )
    ops = draw(st.lists(op, min_size=2, max_size=25))
    return {"ops": ops}


PREDICATES = {}
try:
    from . import c09_real as _r
    PREDICATES.update(_r.PREDICATES_EXTRA)
except ImportError:
    pass


def clauses():
    cl = [
        Clause("hashtable", _hash_case, check_hash, quick=6000, thorough=200000,
               rule="generator: 2-25 operations from {add(x,T), get(x,T), setHashSensitivity(1-9), enableCaching(bool), clear} around a base point with perturbations 1e-9..0.1 in composition and 1e-9..437 K in temperature (T in [200,2500] K, 1-3 components); "
                    "model: list of stored entries; non-trivial: a value was retrieved or caching was toggled"),
    ]
    try:
        from . import c09_real
        cl += c09_real.clauses()
    except ImportError:
        pass
    return cl
