"""C09 — thermodynamic queries are pure; the diffusion models' composition cache is sound.

Clauses
  hashtable   model-based operation sequences on the HashTable (can be switched off; a retrieved value was stored for
              a composition/temperature that rounds to the same key)
  (query clauses on the shipped databases are added by c09_real when importable)
"""
import numpy as np
from hypothesis import strategies as st

from ..core import Clause, Out

LEVEL = "exploration"
ASSUMPTIONS = [
    "'round to the same key at the configured precision' is read in its weakest form: every coordinate of the stored and the queried (x, T) differ by less than one unit of the configured decimal place",
    "thermodynamic query purity is judged up to the documented 1 J/mol offset (see c09_real)",
]


def check_hash(case):
    from kawin.diffusion.DiffusionParameters import HashTable
    out = Out()
    h = HashTable()
    s = 4
    caching = True
    stored = []          # (x, T, value id)
    toggled = False
    nret = 0
    for k, op in enumerate(case["ops"]):
        name = op[0]
        if name == "sens":
            s = op[1]
            h.setHashSensitivity(s)
            h.clearCache()
            stored = []
        elif name == "cache":
            caching = op[1]
            h.enableCaching(caching)
            toggled = True
        elif name == "clear":
            h.clearCache()
            stored = []
        elif name == "add":
            x, T = np.array(op[1], dtype=float), float(op[2])
            h.addToHashTable(x, T, ("v", k))
            if caching:
                stored.append((x, T, ("v", k)))
        elif name == "get":
            x, T = np.array(op[1], dtype=float), float(op[2])
            x0 = x.copy()
            r = h.retrieveFromHashTable(x, T)
            if x.tobytes() != x0.tobytes():
                out.fail("argument_modified", "retrieveFromHashTable modified the composition array")
            if r is None:
                # a miss is always sound; but an exact repeat of a stored point must hit while caching is on
                if caching and any(np.array_equal(x, sx) and T == sT for sx, sT, _ in stored):
                    out.fail("exact_repeat_missed", "op %d: (x=%r, T=%r) was stored with caching on and precision %d but is not retrieved" % (k, x.tolist(), T, s))
                continue
            nret += 1
            if not caching:
                out.fail("returned_while_disabled", "op %d: caching is switched off but retrieve returned %r for x=%r T=%r" % (k, r, x.tolist(), T), s=s)
                continue
            src = [(sx, sT) for sx, sT, v in stored if v == r]
            if not src:
                out.fail("unknown_value", "op %d: retrieve returned %r which was never stored (or was cleared)" % (k, r))
                continue
            sx, sT = src[-1]
            scale = 10.0 ** s
            if len(sx) != len(x) or np.any(np.abs(sx - x) * scale >= 1 + 1e-9) or abs(sT - T) * scale >= 1 + 1e-9:
                out.fail("unsound_reuse", "op %d: precision %d decimals: value stored for x=%r T=%r was returned for x=%r T=%r" % (k, s, sx.tolist(), sT, x.tolist(), T), s=s)
        out.label("op_" + name)
    out.label("s_%d" % s)
    out.nt(nret > 0 or toggled)
    return out


@st.composite
def _hash_case(draw):
    ne = draw(st.integers(1, 3))
    base_x = [draw(st.floats(0.01, 0.3)) for _ in range(ne)]
    base_T = draw(st.floats(200.0, 2500.0))
    pt = st.tuples(st.lists(st.sampled_from([0.0, 0.0, 1e-9, 1e-7, 1e-5, 1e-4, 1e-3, 1e-2, 0.1]), min_size=ne, max_size=ne),
                   st.sampled_from([0.0, 0.0, 1e-9, 1e-6, 1e-4, 1e-3, 1e-2, 0.5, 1.0, 10.0, 100.0, 437.0]), st.sampled_from([-1.0, 1.0]))

    def mk(p):
        dx, dT, sg = p
        return [[max(0.0, b + sg * d) for b, d in zip(base_x, dx)], base_T + sg * dT]      # mole fractions are not negative
    op = st.one_of(
        pt.map(lambda p: ["add"] + mk(p)),
        pt.map(lambda p: ["get"] + mk(p)),
        pt.map(lambda p: ["get"] + mk(p)),
        st.integers(1, 9).map(lambda s: ["sens", s]),
        st.booleans().map(lambda b: ["cache", b]),
        st.just(["clear"]),
    )
    ops = draw(st.lists(op, min_size=2, max_size=25))
    return {"ops": ops}


def check_model_cache(case):
    """Cache settings made on a diffusion model (useCache, setHashSensitivity) govern every later flux evaluation,
    whatever else is done to the model in between (clearCache, reset + setup, more settings).
    Observation: the stub backend logs every (x, T) it is asked for."""
    from .. import harness_diff as HD
    out = Out()
    sc = case["sc"]
    m, therm = HD.build(sc)
    m.setup()
    base = np.array(m.x, dtype=float)
    use, sens = True, 4           # documented defaults
    if "cache" in sc:
        use = bool(sc["cache"])
    if "hash_s" in sc:
        sens = int(sc["hash_s"])
    history = []                  # every (x, T) the backend was ever asked for
    evals = reused_total = 0
    toggled = False
    for op in case["ops"]:
        name = op[0]
        if name == "cache":
            m.useCache(op[1])
            use = bool(op[1])
            toggled = True
        elif name == "sens":
            m.setHashSensitivity(op[1])
            sens = int(op[1])
            toggled = True
        elif name == "clear":
            m.clearCache()
        elif name == "reset":
            m.reset()
            m.setup()
            out.label("reset")
        elif name == "eval":
            x = np.clip(base + op[1], 1e-6, 0.95 / max(1, base.shape[0]))
            m.x = x.copy()
            n0 = len(therm.log)
            m.getFluxes()
            new = therm.log[n0:]
            T = np.asarray(m.temperatureParameters(m.z, m.t), dtype=float)
            evals += 1
            unit = 10.0 ** (-sens)
            k = 0
            for i in range(x.shape[1]):
                xi, Ti = x[:, i], float(T[i])
                if k < len(new) and np.array_equal(new[k][0], xi) and new[k][1] == Ti:
                    history.append(new[k])
                    k += 1
                    continue
                # node i was served from the cache
                reused_total += 1
                if not use:
                    out.fail("model_cache_used_while_off", "evaluation %d: caching was switched off with useCache(False) but node %d (x=%r, T=%r) was not evaluated by the backend" % (evals, i, xi.tolist(), Ti), ops=[o[0] for o in case["ops"]])
                    return out
                ok = any(np.all(np.abs(hx - xi) < unit * (1 + 1e-9)) and abs(hT - Ti) < unit * (1 + 1e-9) for hx, hT in history)
                if not ok:
                    out.fail("model_cache_reuse_outside_key", "evaluation %d: node %d (x=%r, T=%r) was served from the cache at precision %d although no composition within one unit of that precision had been evaluated before" % (evals, i, xi.tolist(), Ti, sens), ops=[o[0] for o in case["ops"]])
                    return out
            if k != len(new):
                out.fail("model_cache_unexpected_calls", "evaluation %d: %d backend calls could not be matched to the nodes of the profile" % (evals, len(new) - k))
                return out
    out.label("cache_on" if use else "cache_off", "sens_%d" % sens)
    if reused_total:
        out.label("reuse_seen")
    out.nt(toggled and evals >= 2)
    return out


@st.composite
def _model_cache_case(draw):
    from . import c04
    sc = draw(c04._scenario(cap=5))
    sc["model"] = "single"
    sc["T"] = ["const", sc["T"][1] if sc["T"][0] != "array" else sc["T"][2][0]]
    sc.pop("prior_bc", None)
    op = st.one_of(
        st.booleans().map(lambda b: ["cache", b]), st.integers(1, 9).map(lambda s: ["sens", s]),
        st.just(["clear"]), st.just(["reset"]), st.just(["reset"]),
        st.tuples(st.sampled_from([0.0, 1.0, -1.0, 3.0]), st.integers(-9, -2)).map(lambda t: ["eval", t[0] * 10.0 ** t[1]]),
        st.tuples(st.sampled_from([0.0, 1.0, -1.0, 3.0]), st.integers(-9, -2)).map(lambda t: ["eval", t[0] * 10.0 ** t[1]]),
    )
    return {"sc": sc, "ops": draw(st.lists(op, min_size=2, max_size=14))}


PREDICATES = {}
try:
    from . import c09_real as _r
    PREDICATES.update(_r.PREDICATES_EXTRA)
except ImportError:
    pass


def clauses():
    cl = [
        Clause("hashtable", _hash_case, check_hash, quick=6000, thorough=200000,
               rule="generator: 2-25 operations from {add(x,T), get(x,T), setHashSensitivity(1-9), enableCaching(bool), clear} around a base point with perturbations 1e-9..0.1 in composition and 1e-9..437 K in temperature (T in [200,2500] K, 1-3 components); "
                    "model: list of stored entries; non-trivial: a value was retrieved or caching was toggled"),
        Clause("model_cache", _model_cache_case, check_model_cache, quick=1500, thorough=40000,
               rule="generator: single-phase diffusion model on the logging stub backend, 2-14 operations from {useCache(bool), setHashSensitivity(1-9), clearCache, reset+setup, flux evaluation at the profile shifted by 0 or +-{1,3}e-9..1e-2}; "
                    "oracle: with caching off every node of every evaluation reaches the backend; a node served from the cache has an earlier backend evaluation within one unit of the configured precision in every coordinate; settings survive clearCache and reset; non-trivial: a setting was changed and >= 2 evaluations"),
    ]
    try:
        from . import c09_real
        cl += c09_real.clauses()
    except ImportError:
        pass
    return cl
