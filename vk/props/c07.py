"""C07 — size-class transport is conservative and bounded.

Clauses
  transport   sum rule, face-by-face upwind reference, class receiving the nuclei
  limited     step-size correction: per-face loss <= content, consistency, non-negativity of
              classes that obey the step limit
  dtlimit     value of the step limit; dissolution index
  graingrowth the same transport identities through GrainGrowthModel's callbacks
"""
import numpy as np
from hypothesis import strategies as st

from ..core import Clause, Out
from ..refs import pbm as ref

LEVEL = "exploration"
ASSUMPTIONS = [
    "reference = scalar loops written from the statement (vk/refs/pbm.py); comparison rtol 1e-12 on the magnitude of the terms entering each class",
    "a nucleation radius outside the grid lies in no class: the nuclei must then enter the nearest class (the first for a radius below the grid, the last for one at or above its top) and obey the sum rule (reading stated in DESIGN.md section 3)",
    "the per-face limited fluxes are read from the model's documented temporary storage (_netFlux)",
]

EPS = np.finfo(float).eps


def _pbm(case):
    from kawin.precipitation.PopulationBalance import PopulationBalanceModel
    p = PopulationBalanceModel(case["cmin"], case["cmax"], case["bins"], minBins=max(2, case["bins"] // 2), maxBins=case["bins"] * 2)
    return p


def check_transport(case):
    out = Out()
    p = _pbm(case)
    n = np.array(case["n"], dtype=float)
    g = np.array(case["g"], dtype=float)
    J, r = case["J"], case["rnuc"]
    b = p.PSDbounds
    N = len(n)
    g0 = g.copy()
    n0 = n.copy()
    d_with = np.array(p.getdXdtEuler(g, J, r, n), dtype=float)
    d_zero = np.array(p.getdXdtEuler(g, 0.0, r, n), dtype=float)
    if g.tobytes() != g0.tobytes() or n.tobytes() != n0.tobytes():
        out.fail("inputs_modified", "getdXdtEuler modified the growth or distribution array passed to it")
    dref, ob, ot, F, src = ref.transport(b, n, g)
    # magnitude of the terms entering each class
    mag = np.array([abs(F[i]) + abs(F[i + 1]) for i in range(N)])
    tol = 1e-12 * mag + 1e-300
    bad = np.where(np.abs(d_zero - np.array(dref)) > tol)[0]
    if len(bad):
        i = int(bad[0])
        out.fail("upwind_mismatch", "class %d: dn/dt = %r, upwind reference %r (faces %r, %r)" % (i, d_zero[i], dref[i], F[i], F[i + 1]), cls=i)
    # sum rule: interior exchange cancels; what remains is nucleation minus boundary outflow
    tot = float(np.sum(d_with))
    expect = J - ob - ot
    scale = float(np.sum(mag)) + abs(J)
    if abs(tot - expect) > 64 * N * EPS * scale + 1e-300:
        out.fail("sum_rule", "sum dn/dt = %r, expected J - outflow = %r (J=%r, bottom %r, top %r)" % (tot, expect, J, ob, ot))
    # nucleation placement
    diff = d_with - d_zero
    where = ref.containing_class(b, r)
    noise = 8 * EPS * (mag + abs(J)) + 1e-300
    if J > 0:
        got = [int(i) for i in np.where(np.abs(diff) > noise)[0]]
        resolvable = J > 1e3 * EPS * float(np.max(mag)) if N else False
        if resolvable:
            if isinstance(where, int):
                if got != [where] or abs(diff[where] - J) > noise[where] + 1e-12 * J:
                    out.fail("nucleation_class", "radius %r lies in class %d [%r,%r) but the nucleation term went to class(es) %r" % (r, where, b[where], b[where + 1], got), radius_where="inside")
            elif where == "below":
                if got != [0]:
                    out.fail("nucleation_below_grid", "radius %r is below the grid (min %r) and the nucleation term went to class(es) %r of %d" % (r, b[0], got, N), radius_where="below")
            elif where == "above":
                if got != [N - 1]:
                    out.fail("nucleation_above_grid", "radius %r is at or above the top of the grid (max %r) and the nucleation term went to class(es) %r of %d (the nearest class is the last one)" % (r, b[-1], got, N), radius_where="above")
            out.label("nuc_" + (where if isinstance(where, str) else "inside"))
            if isinstance(where, int) and (r == b[where]):
                out.label("nuc_on_boundary")
    signs = np.sign(g)
    populated = bool(np.any(n > 0))
    signchange = bool(np.any(signs[:-1] * signs[1:] < 0))
    out.label("populated" if populated else "empty", case["gkind"], case["nkind"])
    out.nt(populated and (signchange or (J > 0 and not isinstance(where, int))))
    return out


def check_limited(case):
    out = Out()
    p = _pbm(case)
    n = np.array(case["n"], dtype=float)
    g = np.array(case["g"], dtype=float)
    J, r, dt = case["J"], case["rnuc"], case["dt"]
    b = p.PSDbounds
    N = len(n)
    d_raw = np.array(p.getdXdtEuler(g, J, r, n), dtype=float)
    d = np.array(p.correctdXdtEuler(dt, g, J, r, n), dtype=float)
    net = np.array(p._netFlux, dtype=float)
    L, F, src = ref.limited(b, n, g, dt)
    LT, scaled = ref.limited_total(b, n, g, dt)
    nlimited = 0
    # the correction's documented purpose: "the total number of particles leaving a bin should be less than or equal to the number
    # of particles in the bin" - also for a class around the critical radius, which loses through both faces
    for i in range(N):
        lost = (max(-net[i], 0.0) if src[i] == i else 0.0) + (max(net[i + 1], 0.0) if src[i + 1] == i else 0.0)
        if lost * dt > n[i] * (1 + 1e-12) + 1e-300:
            out.fail("class_loss_exceeds_content", "class %d holds %r but loses %r through its two faces in dt=%r (lower face %r, upper face %r)" % (i, n[i], lost * dt, dt, net[i], net[i + 1]), cls=i)
            break
    if scaled:
        out.label("two_sided_loss_scaled")
    # the correction only limits fluxes: when no face needs limiting, the corrected rate is the uncorrected one - nucleation term
    # included, wherever the nucleation radius lies (inside, below or above the grid)
    if not scaled and all(s is None or abs(F[k]) * dt <= n[s] * (1 - 1e-9) for k, s in enumerate(src)):
        out.label("no_face_limited")
        if d.shape != d_raw.shape or np.any(np.abs(d - d_raw) > 1e-12 * (np.abs(d_raw) + abs(J)) + 1e-300):
            i = int(np.argmax(np.abs(d - d_raw))) if d.shape == d_raw.shape else -1
            out.fail("correction_changes_unlimited_rate", "no face needs limiting at dt=%r, but the corrected rate differs from the uncorrected one in class %d: %r vs %r (nucleation radius %r, grid [%r, %r], rate %r)"
                     % (dt, i, float(d[i]), float(d_raw[i]), r, float(b[0]), float(b[-1]), J), cls=i)
    for k in range(N + 1):
        s = src[k]
        if s is None:
            if net[k] != 0:
                out.fail("flux_without_source", "face %d carries flux %r but no class feeds it (g=%r)" % (k, net[k], g[k]))
                break
            continue
        if abs(net[k]) * dt > n[s] * (1 + 1e-12) + 1e-300:
            out.fail("face_loss_exceeds_content", "face %d: class %d holds %r but loses %r in dt=%r" % (k, s, n[s], abs(net[k]) * dt, dt), face=k)
            break
        if k in scaled:
            nlimited += 1
            if abs(net[k] - LT[k]) > 1e-9 * abs(LT[k]) + 1e-300:
                out.fail("unlimited_face_changed", "face %d drains class %d together with its other face: expected %r (both out-fluxes scaled to the content), carries %r" % (k, s, LT[k], net[k]))
                break
        elif abs(F[k]) * dt <= n[s] * (1 - 1e-9):
            if abs(net[k] - F[k]) > 1e-12 * abs(F[k]):
                out.fail("unlimited_face_changed", "face %d needed no limiting (flux %r) but carries %r" % (k, F[k], net[k]))
                break
        else:
            nlimited += 1
        if net[k] * F[k] < 0:
            out.fail("face_direction_reversed", "face %d flux %r has the opposite sign of the upwind flux %r" % (k, net[k], F[k]))
            break
    # consistency of the returned vector with the face fluxes + nucleation
    where = ref.containing_class(b, r)
    base = net[:-1] - net[1:]
    mag = np.abs(net[:-1]) + np.abs(net[1:])
    resid = d - base
    tot_expect = float(np.sum(base)) + J
    if abs(float(np.sum(d)) - tot_expect) > 64 * N * EPS * (float(np.sum(mag)) + abs(J)) + 1e-300:
        out.fail("corrected_sum", "sum of corrected dn/dt %r differs from face balance + J %r" % (float(np.sum(d)), tot_expect))
    if isinstance(where, int) and J > 1e3 * EPS * float(np.max(mag) if N else 0):
        got = [int(i) for i in np.where(np.abs(resid) > 8 * EPS * (mag + abs(J)) + 1e-300)[0]]
        if got != [where]:
            out.fail("nucleation_class_corrected", "after correction the nucleation term sits in class(es) %r, radius is in class %d" % (got, where))
    elif where == "below" and J > 1e3 * EPS * float(np.max(mag) if N else 0):
        got = [int(i) for i in np.where(np.abs(resid) > 8 * EPS * (mag + abs(J)) + 1e-300)[0]]
        if got != [0]:
            out.fail("nucleation_below_grid", "after correction: radius %r below the grid, nucleation term in class(es) %r of %d" % (r, got, N), radius_where="below")
    elif where == "above" and J > 1e3 * EPS * float(np.max(mag) if N else 0):
        got = [int(i) for i in np.where(np.abs(resid) > 8 * EPS * (mag + abs(J)) + 1e-300)[0]]
        if got != [N - 1]:
            out.fail("nucleation_above_grid", "after correction: radius %r at or above the top of the grid, nucleation term in class(es) %r of %d" % (r, got, N), radius_where="above")
    # classes obeying the step limit never go negative
    ratio = case["ratio"]
    dR = np.diff(b)
    newn = n + dt * d
    for i in range(N):
        if abs(g[i]) * dt <= ratio * dR[i] and abs(g[i + 1]) * dt <= ratio * dR[i]:
            if newn[i] < -1e-9 * n[i] - 1e-300:
                out.fail("negative_under_limit", "class %d obeys the step limit (|g|dt <= %.2f dR on both faces) but goes from %r to %r" % (i, ratio, n[i], newn[i]), cls=i)
                break
    if nlimited:
        out.label("face_limited")
    out.label(case["gkind"], case["nkind"])
    out.nt(nlimited > 0 and bool(np.any(n > 0)))
    return out


def check_dtlimit(case):
    out = Out()
    p = _pbm(case)
    n = np.array(case["n"], dtype=float)
    g = np.array(case["g"], dtype=float)
    b = p.PSDbounds
    N = len(n)
    p.PSD = n.copy()
    frac, minidx = case["diss_frac"], case["min_index"]
    k = int(p.getDissolutionIndex(frac, minidx))
    R = 0.5 * (b[:-1] + b[1:])
    tot = ref.moment(n, R, 3)
    if k < minidx:
        out.fail("dissolution_index_below_min", "index %d < minimum index %d" % (k, minidx))
    if k > minidx:
        below = ref.moment(n[:k], R[:k], 3)
        if below > frac * tot * (1 + 1e-12):
            out.fail("dissolution_index_volume", "classes below index %d hold %r of the volume, allowed fraction %r" % (k, below / tot if tot else 0, frac))
        out.label("diss_index_above_min")
    if not (0 <= k <= N):
        out.fail("dissolution_index_range", "index %d outside 0..%d" % (k, N))
    ratio = case["ratio"]
    cur = case["dt"]
    kk = min(k, N)
    got = p.getDTEuler(cur, g, kk, ratio)
    rel = [abs(g[i]) for i in range(kk, N) if n[i] > 0]
    if not rel or max(rel) == 0:
        expect = cur
        out.label("dt_passthrough")
    else:
        expect = ratio * (b[1] - b[0]) / max(rel)
        out.label("dt_limited")
        out.nt()
    if not (abs(got - expect) <= 1e-12 * abs(expect)):
        out.fail("step_limit_value", "getDTEuler = %r, expected ratio*dR/max|g| = %r" % (got, expect))
    if p.PSD.tobytes() != n.tobytes():
        out.fail("psd_modified", "getDTEuler/getDissolutionIndex modified the distribution")
    return out


def check_graingrowth(case):
    """Transport identities through the GrainGrowthModel callbacks (zero nucleation)."""
    from kawin.precipitation.coupling.GrainGrowth import GrainGrowthModel
    out = Out()
    m = GrainGrowthModel(case["cmin"], case["cmax"], case["bins"], minBins=max(2, case["bins"] // 2), maxBins=case["bins"] * 2)
    n = np.array(case["n"], dtype=float)
    if not np.any(n > 0):
        out.label("empty")
        return out
    m.pbm.PSD = n.copy()
    m._z = case["z"]
    b = m.pbm.PSDbounds.copy()
    d = np.array(m.getdXdt(0.0, [n])[0], dtype=float)
    g = np.array(m._growthRate, dtype=float)
    dref, ob, ot, F, src = ref.transport(b, n, g)
    N = len(n)
    mag = np.array([abs(F[i]) + abs(F[i + 1]) for i in range(N)])
    bad = np.where(np.abs(d - np.array(dref)) > 1e-12 * mag + 1e-300)[0]
    if len(bad):
        i = int(bad[0])
        out.fail("upwind_mismatch", "grain growth class %d: dn/dt %r vs reference %r" % (i, d[i], dref[i]))
    tot = float(np.sum(d))
    if abs(tot + ob + ot) > 64 * N * EPS * float(np.sum(mag)) + 1e-300:
        out.fail("sum_rule", "grain growth: sum dn/dt %r, boundary outflow %r" % (tot, ob + ot))
    dt = case["dt_factor"] * m.pbm.getDTEuler(1e30, g, 0)
    dX = [d.copy()]
    m.correctdXdt(dt, [n], dX)
    net = np.array(m.pbm._netFlux)
    L, F2, src2 = ref.limited(b, n, g, dt)
    for k in range(N + 1):
        s = src2[k]
        if s is not None and abs(net[k]) * dt > n[s] * (1 + 1e-12):
            out.fail("face_loss_exceeds_content", "grain growth face %d loses %r > content %r" % (k, abs(net[k]) * dt, n[s]))
            break
    out.label("z_%s" % ("0" if case["z"] == 0 else "pos"))
    out.nt(bool(np.any(g > 0) and np.any(g < 0)))
    return out


# ---------------------------------------------------------------- generators

@st.composite
def _grid_dist(draw, maxbins):
    cmin = 10 ** draw(st.floats(-11, -8))
    span = draw(st.sampled_from([1.0, 10.0, 12.0, 100.0, 1000.0]))
    cmax = cmin * span
    bins = draw(st.one_of(st.integers(1, maxbins), st.sampled_from([1, 2, 3, maxbins])))
    nkind = draw(st.sampled_from(["empty", "single", "sparse", "dense", "dense", "wide"]))
    if nkind == "empty":
        n = [0.0] * bins
    elif nkind == "single":
        n = [0.0] * bins
        n[draw(st.integers(0, bins - 1))] = 10 ** draw(st.floats(0, 25))
    elif nkind == "sparse":
        n = [(10 ** draw(st.floats(-2, 25)) if draw(st.integers(0, 4)) == 0 else 0.0) for _ in range(bins)]
    elif nkind == "dense":
        n = [10 ** draw(st.floats(0, 22)) for _ in range(bins)]
    else:
        n = [10 ** draw(st.floats(-5, 30)) for _ in range(bins)]
    return cmin, cmax, bins, nkind, n


def _growth(draw, bounds, gkind):
    nb = len(bounds)
    if gkind == "physical":
        A = 10 ** draw(st.floats(-20, -10))
        rs = bounds[0] + draw(st.floats(-0.5, 1.5)) * (bounds[-1] - bounds[0])
        rs = max(rs, 0.1 * bounds[0])
        return [A * (1 / rs - 1 / x) for x in bounds]
    if gkind == "const+":
        v = 10 ** draw(st.floats(-14, -4))
        return [v] * nb
    if gkind == "const-":
        v = -10 ** draw(st.floats(-14, -4))
        return [v] * nb
    if gkind == "zeros":
        return [0.0] * nb
    if gkind == "random":
        return [draw(st.sampled_from([-1.0, 0.0, 1.0, 1.0, -1.0])) * 10 ** draw(st.floats(-14, -4)) for _ in range(nb)]
    # sign change inside one class: left face negative, right face positive (particles leave through both faces)
    k = draw(st.integers(0, nb - 2))
    v = 10 ** draw(st.floats(-14, -4))
    return [(-v if i <= k else v) for i in range(nb)]


@st.composite
def _case(draw, maxbins=80):
    cmin, cmax, bins, nkind, n = draw(_grid_dist(maxbins))
    cmax_eff = max(10 * cmin, cmax)
    bounds = list(np.linspace(cmin, cmax_eff, bins + 1))
    gkind = draw(st.sampled_from(["physical", "physical", "const+", "const-", "zeros", "random", "signchange"]))
    g = _growth(draw, bounds, gkind)
    J = draw(st.sampled_from([0.0, 0.0, 1.0])) * 10 ** draw(st.floats(-5, 30))
    rk = draw(st.sampled_from(["inside", "inside", "boundary", "below", "zero", "above", "top"]))
    if rk == "inside":
        r = bounds[0] + draw(st.floats(0.0, 0.999999)) * (bounds[-1] - bounds[0])
    elif rk == "boundary":
        r = bounds[draw(st.integers(0, bins - 1))]
    elif rk == "below":
        r = bounds[0] * draw(st.floats(0.01, 0.999))
    elif rk == "zero":
        r = 0.0
    elif rk == "above":
        r = bounds[-1] * draw(st.floats(1.0001, 10))
    else:
        r = bounds[-1]
    ratio = draw(st.sampled_from([0.4, 0.4, 0.1, 0.25, 0.5]))
    gm = max(abs(x) for x in g)
    dR = bounds[1] - bounds[0]
    base = ratio * dR / gm if gm > 0 else 1.0
    dt = base * 10 ** draw(st.floats(-1, 2))
    return {"cmin": cmin, "cmax": cmax, "bins": bins, "n": n, "nkind": "n_" + nkind, "g": g, "gkind": "g_" + gkind,
            "J": J, "rnuc": float(r), "dt": dt, "ratio": ratio,
            "diss_frac": draw(st.sampled_from([1e-3, 1e-6, 0.01, 0.1, 0.5, 0.0])), "min_index": draw(st.integers(0, max(0, bins - 1)))}


@st.composite
def _gg_case(draw):
    cmin, cmax, bins, nkind, n = draw(_grid_dist(60))
    return {"cmin": cmin, "cmax": cmax, "bins": max(2, bins), "n": (n + [0.0])[:max(2, bins)] if len(n) < 2 else n,
            "z": draw(st.sampled_from([0.0, 0.0, 1.0])) * 10 ** draw(st.floats(4, 10)),
            "dt_factor": 10 ** draw(st.floats(-1, 1.5))}


def _growth_on(bounds, spec):
    """Growth field on the grid the model holds *now* (the history may have changed it)."""
    b = np.asarray(bounds, dtype=float)
    kind = spec[0]
    if kind == "physical":
        A, f = spec[1], spec[2]
        rs = max(b[0] + f * (b[-1] - b[0]), 0.1 * b[0])
        return A * (1 / rs - 1 / b)
    if kind == "const":
        return np.full(len(b), spec[1])
    k = int(spec[2] * (len(b) - 2))
    return np.where(np.arange(len(b)) <= k, -spec[1], spec[1])


def check_after_history(case):
    """The transport identities and the step limit on a model whose grid went through a history of grid operations
    (extension, re-mesh, automatic adjustment, recorded states restored): every quantity must refer to the grid the model holds now."""
    from kawin.precipitation.PopulationBalance import PopulationBalanceModel
    out = Out()
    c = case["ctor"]
    p = PopulationBalanceModel(c["cmin"], c["cmax"], c["bins"], c["minBins"], c["maxBins"])
    p.enableRecording()
    times = []
    regrids = restored = 0

    def fill(spec):
        i = np.arange(p.bins)
        pos, w, logA = spec
        n = 10 ** logA * np.exp(-(((i + 0.5) / p.bins - pos) / w) ** 2)
        n[n < 1] = 0
        p.PSD = n

    for op in case["ops"]:
        name = op[0]
        b0 = p.PSDbounds.copy()
        if name == "fill":
            fill(op[1])
        elif name == "add":
            p.addSizeClasses(op[1])
        elif name == "change":
            p.changeSizeClasses(p.PSDbounds[0] * op[1], p.PSDbounds[-1] * op[2], op[3])
        elif name == "adjust":
            p.adjustSizeClassesEuler(op[1])
        elif name == "record":
            if p.bins <= p.maxBins:
                t = (times[-1] if times else 0.0) + op[1]
                p.record(t)
                times.append(t)
        elif name == "restore":
            if times:
                b_before = p.PSDbounds.copy()
                p.setPSDtoRecordedTime(times[int(op[1] * (len(times) - 1) + 0.5)] if op[2] else times[0] - 1.0)
                if len(b_before) != len(p.PSDbounds) or not np.allclose(b_before, p.PSDbounds, rtol=1e-12, atol=0):
                    restored += 1
        if len(b0) != len(p.PSDbounds) or not np.allclose(b0, p.PSDbounds, rtol=1e-12, atol=0):
            regrids += 1
    b = np.asarray(p.PSDbounds, dtype=float)
    N = p.bins
    if len(b) != N + 1 or len(p.PSD) != N or not np.all(np.diff(b) > 0):
        out.label("grid_inconsistent_after_history")       # C08's subject; nothing to judge here
        return out
    if case["refill"] is not None:
        fill(case["refill"])
    n = np.array(p.PSD, dtype=float)
    g = _growth_on(b, case["g"])
    # step limit refers to the present class width
    ratio = case["ratio"]
    got = p.getDTEuler(case["dt"], g, 0, ratio)
    rel = [abs(g[i]) for i in range(N) if n[i] > 0]
    limited = bool(rel) and max(rel) > 0
    expect = ratio * (b[1] - b[0]) / max(rel) if limited else case["dt"]
    if not (abs(got - expect) <= 1e-12 * abs(expect)):
        out.fail("step_limit_value_after_history", "after %d grid changes (%d by restoring a recorded state) getDTEuler = %r, expected ratio*dR/max|g| = %r with the present class width %r" % (regrids, restored, got, expect, b[1] - b[0]))
    # transport on the present grid
    J, rf = case["J"], case["rnuc_frac"]
    r = b[0] + rf * (b[-1] - b[0])
    d_with = np.array(p.getdXdtEuler(g, J, r, n), dtype=float)
    d_zero = np.array(p.getdXdtEuler(g, 0.0, r, n), dtype=float)
    dref, ob, ot, F, src = ref.transport(b, n, g)
    mag = np.array([abs(F[i]) + abs(F[i + 1]) for i in range(N)])
    bad = np.where(np.abs(d_zero - np.array(dref)) > 1e-12 * mag + 1e-300)[0]
    if len(bad):
        i = int(bad[0])
        out.fail("upwind_mismatch_after_history", "after %d grid changes class %d: dn/dt = %r, upwind reference on the present grid %r" % (regrids, i, d_zero[i], dref[i]))
    tot, expect_tot = float(np.sum(d_with)), J - ob - ot
    if abs(tot - expect_tot) > 64 * N * EPS * (float(np.sum(mag)) + abs(J)) + 1e-300:
        out.fail("sum_rule_after_history", "after %d grid changes sum dn/dt = %r, expected J - outflow = %r" % (regrids, tot, expect_tot))
    where = ref.containing_class(b, r)
    if J > 1e3 * EPS * float(np.max(mag) if N else 0) and isinstance(where, int):
        diff = d_with - d_zero
        got_cls = [int(i) for i in np.where(np.abs(diff) > 8 * EPS * (mag + abs(J)) + 1e-300)[0]]
        if got_cls != [where]:
            out.fail("nucleation_class_after_history", "after %d grid changes radius %r lies in class %d of the present grid but the nucleation term went to %r" % (regrids, r, where, got_cls))
    # corrected step never empties a class that obeys the limit
    dt = expect * case["dt_factor"] if limited else case["dt"]
    p.getdXdtEuler(g, J, r, n)
    d = np.array(p.correctdXdtEuler(dt, g, J, r, n), dtype=float)
    newn = n + dt * d
    dR = np.diff(b)
    for i in range(N):
        if abs(g[i]) * dt <= ratio * dR[i] and abs(g[i + 1]) * dt <= ratio * dR[i] and newn[i] < -1e-9 * n[i] - 1e-300:
            out.fail("negative_under_limit_after_history", "after %d grid changes class %d obeys the step limit but goes from %r to %r" % (regrids, i, n[i], newn[i]))
            break
    out.label("regrids_%d" % min(regrids, 3), "restored_other_grid" if restored else "no_restore", "limited" if limited else "passthrough")
    out.nt(regrids >= 1 and limited)
    return out


@st.composite
def _hist_case(draw):
    cmin = 10 ** draw(st.floats(-11, -8))
    minB = draw(st.integers(4, 40))
    maxB = draw(st.integers(minB + 4, 120))
    bins = draw(st.integers(minB, maxB))
    ctor = {"cmin": cmin, "cmax": cmin * draw(st.sampled_from([10.0, 10.0, 50.0, 100.0])), "bins": bins, "minBins": minB, "maxBins": maxB}
    dist = st.tuples(st.floats(0.0, 1.0), st.floats(0.03, 0.5), st.floats(2, 25)).map(list)
    op = st.one_of(
        dist.map(lambda d: ["fill", d]), dist.map(lambda d: ["fill", d]),
        st.integers(1, 30).map(lambda k: ["add", k]),
        st.tuples(st.sampled_from([1.0, 1.0, 0.5, 2.0]), st.sampled_from([0.3, 0.5, 2.0, 3.0, 10.0]), st.one_of(st.none(), st.integers(minB, maxB + 10))).map(lambda t: ["change", t[0], t[1], t[2]]),     # class counts of minBins/2 or fewer are outside the domain of adjustSizeClassesEuler
        st.booleans().map(lambda f: ["adjust", f]), st.booleans().map(lambda f: ["adjust", f]),
        st.floats(0.1, 10.0).map(lambda t: ["record", t]), st.floats(0.1, 10.0).map(lambda t: ["record", t]),
        st.tuples(st.floats(0, 1), st.sampled_from([True, True, True, False])).map(lambda t: ["restore", t[0], t[1]]),
    )
    gk = draw(st.sampled_from(["physical", "physical", "const", "signchange"]))
    if gk == "physical":
        g = ["physical", 10 ** draw(st.floats(-20, -10)), draw(st.floats(-0.5, 1.5))]
    elif gk == "const":
        g = ["const", draw(st.sampled_from([1.0, -1.0])) * 10 ** draw(st.floats(-14, -4))]
    else:
        g = ["signchange", 10 ** draw(st.floats(-14, -4)), draw(st.floats(0, 1))]
    return {"ctor": ctor, "ops": draw(st.lists(op, min_size=1, max_size=12)), "refill": draw(st.one_of(st.none(), dist)), "g": g,
            "ratio": draw(st.sampled_from([0.4, 0.4, 0.1, 0.25, 0.5])), "dt": 10 ** draw(st.floats(-3, 6)), "dt_factor": 10 ** draw(st.floats(-1, 0)),
            "J": draw(st.sampled_from([0.0, 1.0])) * 10 ** draw(st.floats(-5, 30)), "rnuc_frac": draw(st.floats(0.0, 0.999))}


def pred_nuc_below(case, v):
    """Open finding (if listed): nucleation radius below the smallest class boundary."""
    b0 = case["cmin"]
    return case["rnuc"] < b0


PREDICATES = {"nucleation_radius_below_grid": pred_nuc_below}


def clauses():
    return [
        Clause("transport", _case, check_transport, quick=8000, thorough=400000,
               rule="generator: grid (cMin 1e-11..1e-8, span 1-1000x, 1-80 classes) x distribution {empty, single, sparse, dense, 35-decade range} x growth field {A(1/R*-1/R), const +/-, zeros, random signs, sign change in one class} "
                    "x nucleation rate {0, 1e-5..1e30} x radius {inside, on a boundary, below grid, 0, above grid, at top}; non-trivial: populated distribution with a sign change of g or an out-of-grid radius with J>0"),
        Clause("limited", _case, check_limited, quick=8000, thorough=400000,
               rule="same generator, dt = model limit x 10^[-1,1]; non-trivial: at least one face needed limiting on a populated distribution"),
        Clause("after_history", _hist_case, check_after_history, quick=6000, thorough=200000,
               rule="generator: one PopulationBalanceModel (4-120 classes, recording on) driven through 1-12 operations {fill, addSizeClasses, changeSizeClasses, adjustSizeClassesEuler, record, setPSDtoRecordedTime}; then, on the grid the model holds, "
                    "step limit = ratio * present class width / max|g| over populated classes, upwind reference, sum rule, nucleation class, no negative class under the limit; non-trivial: the grid changed at least once and the limit is active"),
        Clause("dtlimit", _case, check_dtlimit, quick=4000, thorough=200000,
               rule="same generator with dissolution fraction {0,1e-6,1e-3,0.01,0.1,0.5} and minimum index; non-trivial: the limit is active (populated class with non-zero growth at or above the index)"),
        Clause("graingrowth", _gg_case, check_graingrowth, quick=2000, thorough=60000,
               rule="generator: grain size distribution on a random grid, Zener drag {0, 1e4..1e10}, dt = limit x 10^[-1,1.5]; non-trivial: growth and shrinkage both present"),
    ]
