"""C17 — homogenized mobilities respect classical bounds and address phases by name."""
import itertools

import numpy as np
from hypothesis import strategies as st

from ..core import Clause, Out

LEVEL = "exploration"
ASSUMPTIONS = [
    "per-element mobility ratio across phases <= 1e8 (the Hashin-Shtrikman expression cancels catastrophically beyond ~1e16: conditioning); ordering judged at rtol 1e-6",
    "real-database clause: the reference applies the documented rule to computeMobility's per-phase data with post-processing addressed by phase NAME",
]


def _fns():
    import importlib
    HP = importlib.import_module('kawin.diffusion.HomogenizationParameters')
    return HP.wienerLower, HP.hashinShtrikmanLower, HP.hashinShtrikmanUpper, HP.wienerUpper, HP.labyrinth


def check_bounds(case):
    out = Out()
    wl, hl, hu, wu, lab = _fns()
    mob = np.array(case["mob"], dtype=float)
    f = np.array(case["frac"], dtype=float)
    f = f / f.sum()
    p, e = mob.shape
    n = case["lab"]
    m0, f0 = mob.copy(), f.copy()
    res = {nm: np.atleast_1d(np.asarray(fn(mob, f, labyrinth_factor=n), dtype=float)) for nm, fn in (("wl", wl), ("hl", hl), ("hu", hu), ("wu", wu), ("lab", lab))}
    lab1 = np.atleast_1d(np.asarray(lab(mob, f, labyrinth_factor=1), dtype=float))
    if mob.tobytes() != m0.tobytes() or f.tobytes() != f0.tobytes():
        out.fail("inputs_modified", "a homogenization function modified its arguments")
    defined = np.all(mob != -1, axis=0)
    present = f > 0
    for j in range(e):
        vals = {k: v[j] for k, v in res.items()}
        if not defined[j]:
            out.label("undefined_column")      # the statement speaks of defined mobilities only: undefined columns are evaluated (no exception) but not judged
            continue
        if not all(np.isfinite(v) and v >= 0 for v in vals.values()):
            out.fail("not_finite_or_negative", "element %d: %r for mobilities %r fractions %r" % (j, vals, mob[:, j].tolist(), f.tolist()), defined=bool(defined[j]))
            continue
        # the Wiener bounds are the fraction-weighted harmonic and arithmetic means of the phase mobilities
        hm = 1.0 / float(np.sum(f[present] / mob[present, j]))
        am = float(np.sum(f[present] * mob[present, j]))
        if abs(vals["wl"] - hm) > 1e-10 * hm or abs(vals["wu"] - am) > 1e-10 * am:
            out.fail("wiener_not_mean", "element %d: lower/upper Wiener = %r / %r, harmonic/arithmetic mean of the phase mobilities = %r / %r (mobilities %r, fractions %r)" % (j, vals["wl"], vals["wu"], hm, am, mob[:, j].tolist(), f.tolist()))
        lo, hi = mob[present, j].min(), mob[present, j].max()
        seq = [lo, vals["wl"], vals["hl"], vals["hu"], vals["wu"], hi]
        names = ["min", "lower Wiener", "lower Hashin-Shtrikman", "upper Hashin-Shtrikman", "upper Wiener", "max"]
        for a in range(5):
            if seq[a] > seq[a + 1] * (1 + 1e-6):
                out.fail("bound_order", "element %d: %s = %r > %s = %r (mobilities %r, fractions %r)" % (j, names[a], seq[a], names[a + 1], seq[a + 1], mob[:, j].tolist(), f.tolist()), pair=names[a] + ">" + names[a + 1])
                break
        if abs(lab1[j] - vals["wu"]) > 1e-12 * abs(vals["wu"]):
            out.fail("labyrinth_factor_one", "element %d: labyrinth(1) = %r, upper Wiener = %r" % (j, lab1[j], vals["wu"]))
        if vals["lab"] > vals["wu"] * (1 + 1e-12):
            out.fail("labyrinth_above_wiener", "element %d: labyrinth(%r) = %r > upper Wiener %r" % (j, n, vals["lab"], vals["wu"]))
        if np.sum(present) == 1:
            m1 = mob[present, j][0]
            for k in ("wl", "hl", "hu", "wu"):
                if abs(vals[k] - m1) > 1e-6 * m1:
                    out.fail("single_phase_value", "element %d: one phase present with mobility %r but %s rule gives %r" % (j, m1, k, vals[k]), rule=k)
    # permutation invariance
    for perm in itertools.islice(itertools.permutations(range(p)), 1, 7):
        perm = list(perm)
        for nm, fn in (("wl", wl), ("hl", hl), ("hu", hu), ("wu", wu), ("lab", lab)):
            r2 = np.atleast_1d(np.asarray(fn(mob[perm], f[perm], labyrinth_factor=n), dtype=float))
            ok = np.isclose(r2, res[nm], rtol=1e-6, atol=0) | ~defined
            if not np.all(ok):
                j = int(np.argmin(ok))
                out.fail("phase_order_dependence", "%s rule element %d: %r with the listed order, %r after permuting phases %r" % (nm, j, res[nm][j], r2[j], perm), rule=nm, defined=bool(defined[j]))
                break
    distinct = any(len(set(mob[present, j].tolist())) > 1 for j in range(e) if defined[j])
    out.label("phases_%d" % p)
    if np.any(f == 0):
        out.label("zero_fraction_phase")
    out.nt(bool(np.sum(present) >= 2 and distinct))
    return out


@st.composite
def _bounds_case(draw):
    p = draw(st.integers(1, 4))
    e = draw(st.integers(1, 3))
    mob = []
    base = [draw(st.floats(-30, -10)) for _ in range(e)]
    for i in range(p):
        row = []
        for j in range(e):
            if draw(st.integers(0, 4)) == 4:
                row.append(-1.0)
            else:
                row.append(10 ** (base[j] + draw(st.floats(0, 8))))
        mob.append(row)
    kind = draw(st.sampled_from(["random", "random", "one", "zeros", "trace"]))
    if kind == "one" or p == 1:
        frac = [0.0] * p
        frac[draw(st.integers(0, p - 1))] = 1.0
    else:
        frac = [draw(st.floats(0.001, 1.0)) for _ in range(p)]
        if kind == "zeros":
            frac[draw(st.integers(0, p - 1))] = 0.0
            if sum(frac) == 0:
                frac[0] = 1.0
        if kind == "trace":
            # a trace amount of one phase (it matters when that phase is much slower than the others)
            k = draw(st.integers(0, p - 1))
            frac[k] = 10 ** draw(st.floats(-14, -5))
            if sum(frac) == frac[k]:
                frac[(k + 1) % p] = 1.0
    return {"mob": mob, "frac": frac, "lab": draw(st.one_of(st.floats(1, 2), st.sampled_from([1.0, 2.0])))}


def clauses():
    cl = [
        Clause("bounds", _bounds_case, check_bounds, quick=8000, thorough=400000,
               rule="generator: 1-4 phases x 1-3 elements, mobilities log-uniform with ratio <= 1e8 per element, undefined entries (-1) with probability 0.2, fractions on the simplex incl. zeros, trace amounts (1e-14..1e-5) and single-phase vectors, labyrinth factor in [1,2], up to 6 permutations of the phase axis; "
                    "columns containing an undefined entry are evaluated but not judged; oracle: min <= W_lo <= HS_lo <= HS_hi <= W_hi <= max on defined columns, single phase -> its mobility, permutation invariance, labyrinth(1)=W_hi and labyrinth(n)<=W_hi, finite and >= 0 everywhere; non-trivial: >= 2 phases present with distinct defined mobilities"),
    ]
    try:
        from . import c17_real
        cl += c17_real.clauses()
    except ImportError:
        pass
    return cl
