"""C14 — nucleation quantities obey classical nucleation theory for every site type.

Clauses
  cnt       barrier, critical radius, Zeldovich factor, impingement, incubation, rate
  geometry  Clemm-Fisher factors (non-negative, spherical at k=0, area - 2k*removal = 3*volume, volume decreasing)
  sites     available nucleation sites decrease with occupation and are never negative
  cache     setter sequences: cached factors equal those of a fresh object
  trajectory (in sim-based module, registered here): nucleation rate 0 whenever the driving force is <= 0
"""
import math

import numpy as np
from hypothesis import strategies as st

from ..core import Clause, Out

LEVEL = "exploration"
ASSUMPTIONS = [
    "grain-boundary energy ratio k is generated in [0, 0.999 k_max(site)]: at k_max the code marks the value invalid (-1) and within ~1e-6 of it the corner/edge expressions cancel catastrophically",
    "the impingement rate is evaluated with a stub thermodynamics object returning positive tracer diffusivities (the formula under test is kawin's, the diffusivity is an input)",
    "available nucleation sites are read through PrecipitateModel._calcNucleationSites (the only place the quantity exists)",
]

SITES = ["bulk", "dislocations", "grain boundaries", "grain edges", "grain corners"]
KMAX = {"bulk": None, "dislocations": None, "grain boundaries": 1.0, "grain edges": math.sqrt(3) / 2, "grain corners": math.sqrt(2 / 3)}
KB = 1.380649e-23

_cache = {}


def _objs():
    if "o" not in _cache:
        from kawin.precipitation.PrecipitationParameters import PrecipitateParameters, MatrixParameters
        _cache["o"] = (PrecipitateParameters("beta"), MatrixParameters(["solute"]))
    return _cache["o"]


class StubTherm:
    numElements = 2

    def __init__(self, D0, D1):
        self.D = (D0, D1)

    def getTracerDiffusivity(self, x, T, removeCache=False):
        x = np.atleast_1d(x)
        d = np.tile(np.array([[self.D[0], self.D[1]]]), (len(x), 1)).reshape(len(x), 2)
        return d[0] if len(x) == 1 else d


def _setup(case):
    prec, mat = _objs()
    site = case["site"]
    gamma = case["gamma"]
    prec.shapeFactor.setSpherical()
    prec.nucleation.setNucleationType("bulk")
    prec.gamma = gamma
    kmax = KMAX[site]
    k = case["kfrac"] * 0.999 * kmax if kmax else case["kfrac"] * 0.9
    prec.nucleation.gbEnergy = 2 * k * gamma
    prec.nucleation.setNucleationType(site)
    prec.volume.setVolume(case["Vm"], "VM", 4)
    prec.Rmin = case["Rmin"]
    mat.volume.setVolume(case["VmA"], "VM", 4)
    mat.theta = case["theta"]
    return prec, mat, k


def check_cnt(case):
    from kawin.precipitation import NucleationRate as nf
    out = Out()
    prec, mat, k = _setup(case)
    site = case["site"]
    gb = KMAX[site] is not None
    dGs = np.array(case["dG"], dtype=float)
    T = case["T"]
    out.label(site.replace(" ", "_"))
    Rc, Gc = nf.nucleationBarrier(dGs.copy(), prec)
    Rc, Gc = np.atleast_1d(Rc).astype(float), np.atleast_1d(Gc).astype(float)
    Tarr = np.full(len(dGs), T)
    Z = np.atleast_1d(nf.zeldovich(Tarr, Rc, prec)).astype(float)
    therm = StubTherm(case["D"][0], case["D"][1])
    beta = np.atleast_1d(nf.betaBinary1(therm, np.full(len(dGs), case["x"]), Tarr, Rc, mat, prec)).astype(float)
    tau = np.atleast_1d(nf.incubationTime(beta, Z, mat)).astype(float)
    Jss = np.atleast_1d(nf.nucleationRate(Z, beta, Gc, Tarr, tau, time=np.inf)).astype(float)
    clamped_any = False
    for i, dG in enumerate(dGs):
        tag = "dG=%r T=%r gamma=%r k=%r site=%s Rmin=%r" % (dG, T, case["gamma"], k, site, case["Rmin"])
        vals = {"Rcrit": Rc[i], "Gcrit": Gc[i], "Z": Z[i], "beta": beta[i], "tau": tau[i], "J": Jss[i]}
        for name, v in vals.items():
            if not np.isfinite(v):
                out.fail("not_finite", "%s is %r at %s" % (name, v, tag), quantity=name, clamped=bool(dG > 0 and Rc[i] <= case["Rmin"] * (1 + 1e-12)), dG=float(dG), gb=gb)
            elif v < 0:
                out.fail("negative", "%s = %r < 0 at %s" % (name, v, tag), quantity=name, clamped=bool(dG > 0 and Rc[i] <= case["Rmin"] * (1 + 1e-12)), dG=float(dG), gb=gb)
        if dG <= 0:
            if Jss[i] != 0 or Rc[i] != 0 or Gc[i] != 0:
                out.fail("rate_nonzero_without_driving_force", "dG=%r <= 0 but J=%r Rcrit=%r Gcrit=%r" % (dG, Jss[i], Rc[i], Gc[i]))
            continue
        if Rc[i] < case["Rmin"] * (1 - 1e-12):
            out.fail("rcrit_below_min", "Rcrit=%r < Rmin=%r at %s" % (Rc[i], case["Rmin"], tag))
        r_sphere = 2 * case["gamma"] / dG
        clamped = r_sphere <= case["Rmin"]
        clamped_any = clamped_any or clamped
        if not clamped:
            if not math.isclose(Rc[i], r_sphere, rel_tol=1e-7):
                out.fail("rcrit_not_spherical", "unclamped Rcrit=%r, 2*gamma/dG=%r at %s" % (Rc[i], r_sphere, tag))
            g_sphere = 16 * math.pi * case["gamma"] ** 3 / (3 * dG ** 2)
            fvol = float(prec.nucleation.volumeFactor) / (4 * math.pi / 3)
            if not math.isclose(Gc[i], g_sphere * fvol, rel_tol=1e-6, abs_tol=1e-12 * g_sphere):
                out.fail("gcrit_not_scaled_sphere", "Gcrit=%r, spherical barrier x volume factor ratio = %r at %s" % (Gc[i], g_sphere * fvol, tag))
        else:
            # clamped radius: the sphere's barrier at that radius is (4 pi/3) gamma Rcrit^2 (bulk expression); other sites scale it by the volume-factor ratio
            fvol = float(prec.nucleation.volumeFactor) / (4 * math.pi / 3)
            g_cl = 4 * math.pi / 3 * case["gamma"] * Rc[i] ** 2 * fvol
            if np.isfinite(Gc[i]) and not math.isclose(Gc[i], g_cl, rel_tol=1e-6):
                out.fail("gcrit_not_scaled_sphere", "clamped radius: Gcrit=%r, spherical barrier at that radius x volume factor ratio = %r at %s" % (Gc[i], g_cl, tag), clamped=True, dG=float(dG), gb=gb, quantity="Gcrit")
    # scalar == array element
    j = case["pick"] % len(dGs)
    Rs, Gs = nf.nucleationBarrier(float(dGs[j]), prec)
    if not (np.isclose(float(Rs), Rc[j], rtol=1e-12, atol=0, equal_nan=True) and np.isclose(float(Gs), Gc[j], rtol=1e-12, atol=0, equal_nan=True)):
        out.fail("scalar_vs_array", "nucleationBarrier scalar call gives (%r,%r), element %d of the array call (%r,%r)" % (float(Rs), float(Gs), j, Rc[j], Gc[j]))
    # incubation factor in [0,1] and rising with time; the factor is J(t) over the documented steady-state product Z beta exp(-G*/kT)
    from kawin.Constants import BOLTZMANN_CONSTANT
    with np.errstate(all="ignore"):
        Jprod = np.where(Gc != 0, Z * beta * np.exp(-Gc / (BOLTZMANN_CONSTANT * Tarr)), 0.0)
    ts = sorted(case["times"])
    prev = None
    for t in ts:
        Jt = np.atleast_1d(nf.nucleationRate(Z, beta, Gc, Tarr, tau, time=t)).astype(float)
        for i in range(len(dGs)):
            if not (np.isfinite(Jt[i]) and np.isfinite(Jss[i])) or Jss[i] < 0:
                continue
            if Jt[i] < 0 or Jt[i] > Jss[i] * (1 + 1e-12) or (np.isfinite(Jprod[i]) and Jprod[i] >= 0 and Jt[i] > Jprod[i] * (1 + 1e-9)):
                out.fail("incubation_factor_range", "J(t=%r)=%r outside [0, J_ss=%r] (Z beta exp(-G*/kT) = %r)" % (t, Jt[i], Jss[i], Jprod[i]))
            if prev is not None and Jt[i] < prev[i] * (1 - 1e-12):
                out.fail("incubation_not_monotone", "J decreases with time: %r -> %r at t=%r" % (prev[i], Jt[i], t))
        prev = Jt
    # steady-state rate non-decreasing in the driving force at fixed T
    order = np.argsort(dGs)
    for a, b in zip(order[:-1], order[1:]):
        if dGs[a] > 0 and np.isfinite(Jss[a]) and np.isfinite(Jss[b]) and Jss[a] >= 0 and Jss[b] >= 0:
            if Jss[b] < Jss[a] * (1 - 1e-9):
                out.fail("rate_not_monotone_in_dG", "J_ss(dG=%r)=%r > J_ss(dG=%r)=%r" % (float(dGs[a]), float(Jss[a]), float(dGs[b]), float(Jss[b])), quantity="J", dG=float(dGs[b]), gb=gb)
    if clamped_any:
        out.label("clamped_radius")
    out.nt(bool(np.any(dGs > 0)) and (not gb or case["kfrac"] > 0.05))
    return out


def check_geometry(case):
    from kawin.precipitation.parameters import Nucleation as N
    out = Out()
    site = case["site"]
    d = {"grain boundaries": N.GrainBoundaryDescription, "grain edges": N.GrainEdgeDescription, "grain corners": N.GrainCornerDescription,
         "bulk": N.BulkDescription, "dislocations": N.DislocationDescription}[site]()
    kmax = KMAX[site] or 1.0
    ks = np.array(sorted(f * 0.999 * kmax for f in case["kfracs"]))
    out.label(site.replace(" ", "_"))
    area, vol, rem, arem = (np.atleast_1d(f(ks.copy())).astype(float) for f in (d.areaFactor, d.volumeFactor, d.gbRemoval, d.areaRemoval))
    for name, arr in (("areaFactor", area), ("volumeFactor", vol), ("gbRemoval", rem), ("areaRemoval", arem)):
        if not np.all(np.isfinite(arr)):
            out.fail("factor_not_finite", "%s %s not finite for k=%r" % (site, name, ks[~np.isfinite(arr)].tolist()))
        elif np.any(arr < -1e-10):
            out.fail("factor_negative", "%s %s = %r < 0 at k=%r" % (site, name, float(arr.min()), float(ks[int(np.argmin(arr))])))
    # scalar calls
    for i, kk in enumerate(ks):
        if not math.isclose(float(d.volumeFactor(float(kk))), vol[i], rel_tol=1e-12, abs_tol=1e-15):
            out.fail("scalar_vs_array", "%s volumeFactor scalar %r vs array %r at k=%r" % (site, float(d.volumeFactor(float(kk))), vol[i], kk))
    a0, v0 = float(d.areaFactor(0.0)), float(d.volumeFactor(0.0))
    if not (math.isclose(a0, 4 * math.pi, rel_tol=1e-9) and math.isclose(v0, 4 * math.pi / 3, rel_tol=1e-9)):
        out.fail("not_spherical_at_k0", "%s: area/volume factor at k=0 are %r/%r, sphere 4pi/(4pi/3)" % (site, a0, v0))
    if KMAX[site] is not None:
        ident = area - 2 * ks * rem - 3 * vol
        if np.any(np.abs(ident) > 1e-9):
            i = int(np.argmax(np.abs(ident)))
            out.fail("clemm_fisher_identity", "%s k=%r: area - 2k*removal - 3*volume = %r" % (site, ks[i], ident[i]))
        dv = np.diff(vol)
        if np.any(dv > 1e-10):
            i = int(np.argmax(dv))
            out.fail("volume_factor_increases", "%s: volume factor rises from %r at k=%r to %r at k=%r" % (site, vol[i], ks[i], vol[i + 1], ks[i + 1]))
        out.nt(bool(np.any(ks > 0.05)))
    return out


def check_sites(case):
    from kawin.precipitation import PrecipitateModel
    out = Out()
    key = ("model", len(case["phases"]))
    if key not in _cache:
        names = ["p%d" % i for i in range(len(case["phases"]))]
        _cache[key] = PrecipitateModel(phases=names, elements=["solute"])
    m = _cache[key]
    m.setVolumeAlpha(case["VmA"], "VM", 4)
    m.setInitialComposition(case["x0"])
    m.setNucleationDensity(grainSize=case["grain"], aspectRatio=case["gar"], dislocationDensity=case["disl"])
    m.setGrainBoundaryEnergy(case["gbe"])
    for i, ph in enumerate(case["phases"]):
        name = "p%d" % i
        m.precipitateParameters[i].shapeFactor.setSpherical()
        m.setNucleationSite("bulk", name)
        m.setInterfacialEnergy(ph["gamma"], name)
        kmax = KMAX[ph["site"]]
        m.precipitateParameters[i].nucleation.gbEnergy = case["gbe"]
        gam = ph["gamma"]
        if kmax is not None and case["gbe"] / (2 * gam) > 0.999 * kmax:
            gam = case["gbe"] / (2 * 0.99 * kmax)
            m.setInterfacialEnergy(gam, name)
        m.setNucleationSite(ph["site"], name)
        m.setVolumeBeta(ph["Vm"], "VM", 4, name)
        m.setPBMParameters(cMin=1e-10, cMax=1e-8, bins=20, minBins=10, maxBins=40, phase=name)
    xs = []
    for ph in case["phases"]:
        n = np.zeros(20)
        for idx, logn in ph["pop"]:
            n[idx % 20] = 10 ** logn
        xs.append(n)
    c = case["scale"]
    for p, ph in enumerate(case["phases"]):
        s1 = float(m._calcNucleationSites(0.0, [x.copy() for x in xs], p))
        s2 = float(m._calcNucleationSites(0.0, [x * c for x in xs], p))
        s0 = float(m._calcNucleationSites(0.0, [x * 0 for x in xs], p))
        out.label(ph["site"].replace(" ", "_"))
        for nm, s in (("n", s1), ("c*n", s2), ("0", s0)):
            if not np.isfinite(s) or s < 0:
                out.fail("sites_negative_or_nan", "available sites for %s = %r with populations %s" % (ph["site"], s, nm))
        if s2 > s1 * (1 + 1e-12) or s1 > s0 * (1 + 1e-12):
            out.fail("sites_increase_with_occupation", "%s: sites %r (empty) -> %r (n) -> %r (%.2f n)" % (ph["site"], s0, s1, s2, c))
        if s1 < s0:
            out.nt()
    return out


def check_cache(case):
    """Setter sequences on NucleationBarrierParameters / PrecipitateParameters vs a fresh object."""
    from kawin.precipitation.parameters.Nucleation import NucleationBarrierParameters
    from kawin.precipitation.PrecipitationParameters import PrecipitateParameters
    out = Out()
    via_prec = case["via_prec"]
    if via_prec:
        holder = PrecipitateParameters("beta")
        nuc = holder.nucleation
    else:
        holder = None
        nuc = NucleationBarrierParameters(site="bulk", gamma=0.2, gbEnergy=0.1)
    state = {"site": "dislocations" if via_prec else "bulk", "gamma": None if via_prec else 0.2, "gb": 0.3 if via_prec else 0.1}
    changes = 0
    for op in case["ops"]:
        kind = op[0]
        if kind == "gamma":
            # keep k admissible for the current site
            g = op[1]
            km = KMAX[state["site"]]
            if km is not None and state["gb"] / (2 * g) > 0.999 * km:
                continue
            if via_prec:
                holder.gamma = g
            else:
                nuc.gamma = g
            state["gamma"] = g
            changes += 1
        elif kind == "gb":
            e = op[1]
            km = KMAX[state["site"]]
            if km is not None and state["gamma"] is not None and e / (2 * state["gamma"]) > 0.999 * km:
                continue
            nuc.gbEnergy = e
            state["gb"] = e
            changes += 1
        elif kind == "site":
            s = op[1]
            km = KMAX[s]
            if km is not None and (state["gamma"] is None or state["gb"] / (2 * state["gamma"]) > 0.999 * km):
                continue
            nuc.setNucleationType(s)
            state["site"] = s
            changes += 1
        elif kind == "read":
            if state["gamma"] is None:
                continue
            fresh = NucleationBarrierParameters(site=state["site"], gamma=state["gamma"], gbEnergy=state["gb"])
            ref_vals = {name: getattr(fresh, name) for name in ("areaRemoval", "gbRemoval", "volumeFactor", "areaFactor", "GBk")}     # the reference object is read factors first, the object under test ratio first
            for name in ("GBk", "areaFactor", "volumeFactor", "gbRemoval", "areaRemoval"):
                vb = ref_vals[name]
                if vb is None or not isinstance(vb, (int, float, np.floating, np.integer, np.ndarray)):
                    out.fail("factor_not_a_number", "%s of a freshly constructed object (site=%s gamma=%r gbEnergy=%r) read after GBk is %r" % (name, state["site"], state["gamma"], state["gb"], vb), factor=name)
                    return out
                b = float(vb)
                try:
                    va = getattr(nuc, name)
                    if va is None:
                        out.fail("factor_not_a_number", "after %d setter calls %s is None (site=%s gamma=%r gbEnergy=%r)" % (changes, name, state["site"], state["gamma"], state["gb"]), factor=name)
                        return out
                    a = float(va)
                except ValueError as e:
                    # the generated state is admissible (a fresh object accepts it): a refusal comes from a stale cached ratio
                    out.fail("stale_factor", "after %d setter calls reading %s raised %s although a fresh object with site=%s gamma=%r gbEnergy=%r gives %r" % (changes, name, str(e)[:160], state["site"], state["gamma"], state["gb"], b), factor=name)
                    return out
                if not math.isclose(a, b, rel_tol=1e-12, abs_tol=1e-300):
                    out.fail("stale_factor", "after %d setter calls %s = %r, a fresh object with site=%s gamma=%r gbEnergy=%r gives %r" % (changes, name, a, state["site"], state["gamma"], state["gb"], b), factor=name)
            dG = 1e8
            if abs(float(nuc.Rcrit(dG)) - float(fresh.Rcrit(dG))) > 1e-12 * abs(float(fresh.Rcrit(dG))):
                out.fail("stale_factor", "Rcrit(1e8) differs from a fresh object after setter sequence", factor="Rcrit")
            if changes >= 2:
                out.nt()
    return out


# ---------------------------------------------------------------- generators

@st.composite
def _cnt(draw):
    n = draw(st.integers(1, 5))
    dG = [draw(st.sampled_from([1.0, 1.0, 1.0, -1.0])) * 10 ** draw(st.floats(4, 11)) for _ in range(n)]
    if draw(st.integers(0, 5)) == 0:
        dG[draw(st.integers(0, n - 1))] = 0.0
    return {"site": draw(st.sampled_from(SITES)), "dG": dG, "T": draw(st.floats(200, 2000)), "gamma": draw(st.floats(0.01, 1.0)),
            "kfrac": draw(st.one_of(st.floats(0, 1), st.sampled_from([0.0, 1.0, 0.5]))), "Vm": 10 ** draw(st.floats(-5.5, -4.5)), "VmA": 10 ** draw(st.floats(-5.5, -4.5)),
            "Rmin": draw(st.sampled_from([3e-10, 3e-10, 1e-10, 1e-9])), "theta": draw(st.sampled_from([2.0, 1.0, 4 * math.pi])),
            "D": [10 ** draw(st.floats(-25, -10)), 10 ** draw(st.floats(-25, -10))], "x": draw(st.floats(1e-5, 0.3)),
            "times": [10 ** draw(st.floats(-6, 8)) for _ in range(draw(st.integers(2, 4)))], "pick": draw(st.integers(0, 10))}


@st.composite
def _geo(draw):
    return {"site": draw(st.sampled_from(SITES)), "kfracs": draw(st.lists(st.one_of(st.floats(0, 1), st.sampled_from([0.0, 1.0, 1e-6, 0.999])), min_size=2, max_size=8))}


@st.composite
def _sites(draw):
    nph = draw(st.integers(1, 3))
    phases = []
    for _ in range(nph):
        phases.append({"site": draw(st.sampled_from(SITES)), "gamma": draw(st.floats(0.05, 1.0)), "Vm": 10 ** draw(st.floats(-5.5, -4.5)),
                       "pop": draw(st.lists(st.tuples(st.integers(0, 19), st.floats(0, 27)), min_size=0, max_size=5))})
    return {"phases": phases, "VmA": 10 ** draw(st.floats(-5.5, -4.5)), "x0": draw(st.floats(1e-5, 0.3)), "grain": 10 ** draw(st.floats(-1, 3)),
            "gar": draw(st.floats(1, 5)), "disl": 10 ** draw(st.floats(8, 16)), "gbe": draw(st.floats(0.05, 1.0)), "scale": draw(st.floats(1.0001, 100))}


@st.composite
def _cache_case(draw):
    op = st.one_of(
        st.floats(0.02, 1.0).map(lambda g: ["gamma", g]),
        st.floats(0.0, 1.0).map(lambda g: ["gb", g]),
        st.sampled_from(SITES).map(lambda s: ["site", s]),
        st.just(["read"]), st.just(["read"]),
    )
    return {"via_prec": draw(st.booleans()), "ops": draw(st.lists(op, min_size=2, max_size=14))}


def pred_gb_clamped_negative_barrier(case, v):
    """Boundary-type site, driving force beyond 3*gamma/Rmin: the barrier evaluated at the clamped radius,
    G(Rmin) = Rmin^2 c (3 gamma - dG Rmin), is negative (and the rate overflows through exp(+|G*|/kT))."""
    d = v.get("data", {})
    if not d.get("gb") or d.get("quantity") not in ("Gcrit", "J"):
        return False
    dG = d.get("dG")
    return isinstance(dG, (int, float)) and dG * case["Rmin"] > 3 * case["gamma"] * (1 - 1e-9)


PREDICATES = {"gb_barrier_negative_at_clamped_radius": pred_gb_clamped_negative_barrier}


def clauses():
    cl = [
        Clause("cnt", _cnt, check_cnt, quick=6000, thorough=400000,
               rule="generator: site x 1-5 volumetric driving forces +-10^[4,11] J/m3 (and 0) x T 200-2000 K x gamma 0.01-1 x k/k_max in [0,0.999] x molar volumes x Rmin x theta x tracer diffusivities x times 10^[-6,8]; "
                    "non-trivial: a positive driving force (and k/k_max > 0.05 for boundary sites)"),
        Clause("geometry", _geo, check_geometry, quick=4000, thorough=200000,
               rule="generator: site x 2-8 ratios k in [0, 0.999 k_max]; non-trivial: boundary-type site with some k > 0.05"),
        Clause("sites", _sites, check_sites, quick=1500, thorough=60000,
               rule="generator: 1-3 phases with site types, energies, volumes and sparse populations on a 20-class grid; sites(empty) >= sites(n) >= sites(c n) >= 0 for c in (1,100]; non-trivial: occupation lowers the count"),
        Clause("cache", _cache_case, check_cache, quick=3000, thorough=150000,
               rule="generator: 2-14 operations from {set gamma (directly or through PrecipitateParameters), set gbEnergy, set site type, read all factors} keeping k admissible; every read (ratio first, then the four factors) compared with a freshly constructed object (read factors first), a factor that is not a number is a violation; non-trivial: a read after >= 2 changes"),
    ]
    try:
        from . import c14_traj
        cl += c14_traj.clauses()
    except ImportError:
        pass
    return cl
