"""C04 — diffusion conserves every component and honours boundary conditions."""
import io
import sys

import numpy as np
from hypothesis import strategies as st

from ..core import Clause, Out
from .. import harness_diff as HD

LEVEL = "exploration"
ASSUMPTIONS = [
    "stub thermodynamics (smooth positive(-definite) diffusivity) for the single-phase model; for the homogenization model the mobility/chemical-potential provider is replaced in the harness process by an ideal-solution field: conservation, boundary handling and the volume-fixed frame belong to the flux assembly, not to the thermodynamics",
    "a step on which the documented clip to [minComposition, 1-minComposition] engaged (a node sits exactly on a bound afterwards) is counted, not judged for conservation",
    "rounding bound per step: 64*N*eps*max(1, |terms|)",
]
EPS = np.finfo(float).eps
FLUX, COMP = 0, 1


def check_run(sc):
    out = Out()
    import kawin.diffusion.Homogenization as HM
    orig = HM.computeHomogenizationFunction
    nall = len(sc["elements"])
    if sc["model"] == "homog":
        HM.computeHomogenizationFunction = HD.synthetic_homogenization(nall, sc["M0"], sc["Qm"])
    so = sys.stdout
    sys.stdout = io.StringIO()
    try:
        if sc.get("prior_bc"):
            # an earlier model of the same process, configured with other boundary conditions and set up: nothing of it may reach the model under test
            m0, _ = HD.build(dict(sc, bc=sc["prior_bc"], bc_default=[]))
            m0.setup()
            out.label("after_prior_model")
        m, therm = HD.build(sc)
        if sc.get("bc_default"):
            out.label("default_boundaries")
        els = sc["elements"][1:]
        N = sc["N"]
        minC = m.constraints.minComposition
        state = {"prev": None, "first": None, "clipped": 0, "steps": 0, "bad": False}
        it = HD.CapIter(sc["iterator"], sc["cap"])

        class Obs:
            def updateCoupledModel(self, model):
                x = np.array(model.x, dtype=float)
                state["steps"] += 1
                info = it.last
                dt = info["dt"]
                if state["first"] is None:
                    state["first"] = state["after_setup"].copy()
                prev = state["prev"]
                if np.any(x < minC) or np.any(x > 1 - minC) or not np.all(np.isfinite(x)):
                    out.fail("composition_out_of_range", "step %d: composition outside [minComposition, 1-minComposition] (min %r max %r)" % (state["steps"], float(np.nanmin(x)), float(np.nanmax(x))))
                clipped = bool(np.any(x == minC) or np.any(x == 1 - minC))   # a node pinned on a bound is re-clipped every step
                if clipped:
                    state["clipped"] += 1
                for i, e in enumerate(els):
                    bc = state["bc"][e]
                    if bc[0] == FLUX and bc[2] == FLUX and not clipped:
                        exp = (bc[1] - bc[3]) * dt / model.dz
                        got = float(np.sum(x[i]) - np.sum(prev[i]))
                        tol = 64 * N * EPS * max(1.0, abs(exp), float(np.sum(np.abs(x[i]))))
                        if abs(got - exp) > tol and "conservation" not in state:
                            state["conservation"] = True
                            out.fail("component_not_conserved", "step %d (call %d) element %s: mesh sum changed by %.6e, boundary fluxes give %.6e (dt=%r, dz=%r)" % (state["steps"], state["call"], e, got, exp, dt, model.dz),
                                     first_step_of_call=bool(state["first_of_call"]), dev=abs(got - exp))
                    if bc[0] == COMP:
                        v0 = state["first"][i, 0]
                        if abs(x[i, 0] - v0) > 64 * EPS * max(1.0, abs(v0)) and "bcL" not in state:
                            state["bcL"] = True
                            out.fail("fixed_composition_drifts", "step %d element %s: left node fixed at %r now holds %r" % (state["steps"], e, v0, x[i, 0]), first_step_of_call=bool(state["first_of_call"]))
                    if bc[2] == COMP:
                        v0 = state["first"][i, -1]
                        if abs(x[i, -1] - v0) > 64 * EPS * max(1.0, abs(v0)) and "bcR" not in state:
                            state["bcR"] = True
                            out.fail("fixed_composition_drifts", "step %d element %s: right node fixed at %r now holds %r" % (state["steps"], e, v0, x[i, -1]), first_step_of_call=bool(state["first_of_call"]))
                state["prev"] = x
                state["first_of_call"] = False

        m.addCouplingModel(Obs())
        truncated = False
        state["bc"] = {e: list(sc["bc"][e]) for e in els}
        for k, dur in enumerate(sc["durations"]):
            state["call"] = k
            state["first_of_call"] = True
            if k > 0 and sc.get("bc_calls") and len(sc["bc_calls"]) >= k and sc["bc_calls"][k - 1]:
                # boundary conditions set again between two solve calls (a side closed, a flux switched on or changed): in force from this call on
                for e, b in sc["bc_calls"][k - 1].items():
                    m.setBC(b[0], b[1], b[2], b[3], element=e)
                    state["bc"][e] = list(b)
                out.label("boundary_conditions_changed_between_calls")
            if k == 0:
                m.setup()
                state["after_setup"] = np.array(m.x, dtype=float)
                state["prev"] = state["after_setup"].copy()
                if sc["model"] == "homog" and not np.any(np.abs(np.diff(m.x, axis=1)) > 0) and not any((sc["bc"][e][0] == FLUX and sc["bc"][e][1] != 0) or (sc["bc"][e][2] == FLUX and sc["bc"][e][3] != 0) for e in els):
                    # a uniform closed system has no flux at all: the homogenization model cannot derive a time step from it (max of an empty array) - outside the admissible domain
                    out.label("uniform_closed_homogenization_skipped")
                    return out
                # the profile the run starts from lies inside the documented range as well (the shift away from 0 and 1 is part of setup)
                x0_ = state["after_setup"]
                if np.any(x0_ < minC) or np.any(x0_ > 1 - minC) or not np.all(np.isfinite(x0_)):
                    out.fail("composition_out_of_range", "after setup: composition outside [minComposition, 1-minComposition] (min %r max %r)" % (float(np.nanmin(x0_)), float(np.nanmax(x0_))), where="setup")
                # requested composition boundary values are honoured up to the documented shift
                for i, e in enumerate(els):
                    bc = sc["bc"][e]
                    for side, idx, typ, val in (("left", 0, bc[0], bc[1]), ("right", -1, bc[2], bc[3])):
                        if typ == COMP and abs(m.x[i, idx] - val) > (nall + 1) * minC:
                            out.fail("fixed_composition_value", "element %s %s node: requested %r, model holds %r after setup" % (e, side, val, m.x[i, idx]))
            try:
                m.solve(dur, solverType=it, minDtFrac=1e-10)
            except HD.StepCap:
                truncated = True
                break
            except Exception as e:
                if "sum up to above 1" in str(e):      # the model documents this rejection; the synthetic cross-diffusion of the stub can leave the simplex
                    out.label("left_simplex_rejected")
                    truncated = True
                    break
                raise
    finally:
        sys.stdout = so
        HM.computeHomogenizationFunction = orig
    flux_nonzero = any(abs(sc["bc"][e][1]) + abs(sc["bc"][e][3]) > 0 and sc["bc"][e][0] == FLUX and sc["bc"][e][2] == FLUX for e in els)
    comp_bc = any(COMP in (sc["bc"][e][0], sc["bc"][e][2]) for e in els)
    nonuniform = bool(np.any(np.abs(np.diff(state["after_setup"], axis=1)) > 1e-12))
    out.label(sc["model"], sc["iterator"], "calls_%d" % len(sc["durations"]), "els_%d" % nall, "T_" + sc["T"][0])
    if truncated:
        out.label("truncated")
    if state["clipped"]:
        out.label("clip_engaged")
    if comp_bc:
        out.label("composition_bc")
    if flux_nonzero:
        out.label("nonzero_flux_bc")
    out.nt(nonuniform and state["steps"] >= 3 and (flux_nonzero or comp_bc or len(sc["durations"]) >= 2))
    return out


@st.composite
def _profile(draw, hi):
    steps = []
    n = draw(st.integers(1, 3))
    # (1 in 8) a value at the dilute end of the documented range: 0, the minimum composition, the layer just above it through
    # which setup shifts the profile, or the first value not affected by the floor
    v = lambda: draw(st.floats(0.02, hi)) if draw(st.integers(0, 7)) else draw(st.sampled_from([0.0, 1e-8, 1.5e-8, 2.5e-8, 3e-8, 4e-8, 4.000000001e-8, 1e-7, 1e-6]))
    for _ in range(n):
        k = draw(st.sampled_from(["linear", "step", "single", "bounded", "function", "data"]))
        if k == "linear":
            steps.append(["linear", v(), v()])
        elif k == "step":
            steps.append(["step", v(), v(), draw(st.floats(0.1, 0.9))])
        elif k == "single":
            steps.append(["single", v(), draw(st.floats(0, 1))])
        elif k == "bounded":
            a = draw(st.floats(0, 0.8))
            steps.append(["bounded", v(), a, a + draw(st.floats(0.05, 0.2))])
        elif k == "function":
            a = draw(st.floats(0.02, hi / 2))
            steps.append(["function", a, draw(st.floats(0, hi - a - 0.01)), draw(st.integers(1, 4))])
        else:
            npts = draw(st.integers(2, 5))
            zs = sorted(draw(st.floats(0, 1)) for _ in range(npts))
            steps.append(["data", zs, [v() for _ in range(npts)]])
    if steps[0][0] in ("single", "bounded"):
        steps.insert(0, ["linear", v(), v()])
    return steps


@st.composite
def _scenario(draw, cap=150):
    nall = draw(st.sampled_from([2, 2, 3]))
    els = ["A", "B", "C"][:nall]
    model = draw(st.sampled_from(["single", "single", "homog"]))
    N = draw(st.one_of(st.integers(3, 120), st.sampled_from([3, 4, 20])))
    L = 10 ** draw(st.floats(-6, -2))
    z0 = draw(st.sampled_from([0.0, 0.0, -1.0])) * L
    hi = 0.9 if nall == 2 else 0.3
    prof, bc = {}, {}
    for e in els[1:]:
        prof[e] = draw(_profile(hi))
        b = []
        for side in range(2):
            t = draw(st.sampled_from([FLUX, FLUX, FLUX, COMP]))
            if t == FLUX:
                b += [FLUX, draw(st.sampled_from([0.0, 0.0, 1.0, -1.0])) * 10 ** draw(st.floats(-14, -9))]
            else:
                b += [COMP, draw(st.floats(0.02, hi)) if draw(st.integers(0, 7)) else draw(st.sampled_from([1e-8, 2.5e-8, 4e-8, 1e-7]))]
        bc[e] = b
    T0 = draw(st.floats(600, 1400))
    tk = draw(st.sampled_from(["const", "const", "array", "field"]))
    sc = {"model": model, "elements": els, "N": N, "zlim": [z0, z0 + L], "profile": prof, "bc": bc,
          "iterator": draw(st.sampled_from(["euler", "rk4"])), "cap": cap}
    stub = {"D0": 10 ** draw(st.floats(-14, -8)), "Q": draw(st.floats(0, 150e3)), "a": draw(st.floats(0, 2)), "cross": draw(st.floats(0, 0.3))}
    sc["stub"] = stub
    dz = L / (N - 1)
    Dest = stub["D0"] * np.exp(-stub["Q"] / (8.314 * T0)) * 3
    dt_est = 0.4 * dz ** 2 / Dest
    if model == "homog":
        sc["M0"] = [10 ** draw(st.floats(-16, -12)) for _ in range(nall)]
        sc["Qm"] = [draw(st.floats(0, 100e3)) for _ in range(nall)]
        sc["homog_fn"] = draw(st.sampled_from(["wiener upper", "wiener lower", "hashin upper", "hashin lower", "lab"]))
        sc["eps"] = draw(st.sampled_from([0.05, 0.0, 0.01, 0.5]))
        Mest = max(m0 * np.exp(-q / (8.314 * T0)) for m0, q in zip(sc["M0"], sc["Qm"])) * 8.314 * T0
        dt_est = 0.002 * dz ** 2 / Mest / 0.5
    nsteps = draw(st.integers(3, 120))
    total = float(dt_est * nsteps)
    nd = draw(st.sampled_from([1, 1, 2, 3, 4]))
    cuts = sorted(draw(st.floats(0.1, 0.9)) for _ in range(nd - 1))
    edges = [0.0] + cuts + [1.0]
    sc["durations"] = [total * (b - a) for a, b in zip(edges[:-1], edges[1:])]
    # keep the amount pumped through a flux boundary below 2% of the mesh content, so that compositions stay inside the simplex
    jmax = 0.02 * N * dz / total
    for e in els[1:]:
        for k in (1, 3):
            if bc[e][k - 1] == FLUX and abs(bc[e][k]) > jmax:
                bc[e][k] = float(np.sign(bc[e][k]) * jmax)
    if tk == "const":
        sc["T"] = ["const", T0]
    elif tk == "array":
        sc["T"] = ["array", [0.0, total / 3600 * draw(st.floats(0.2, 1.0))], [T0, T0 + draw(st.floats(-150, 150))]]
    else:
        sc["T"] = ["field", T0, draw(st.floats(-100, 100)), draw(st.floats(-50, 50)) / max(total, 1e-30), L]
    if draw(st.integers(0, 3)) == 3:
        sc["cache"] = draw(st.booleans())
    if draw(st.integers(0, 3)) == 3:
        sc["hash_s"] = draw(st.integers(1, 8))
    sc["api"] = draw(st.sampled_from(["model", "model", "parameters"]))      # model-level wrappers (setCompositionLinear..., setBC) or the parameter objects (build steps, setLeft/RightBoundaryCondition)
    if draw(st.booleans()):
        sc["bc_names"] = True              # boundary-condition types given by name ('flux' / 'composition')
    closed = [e for e in els[1:] if bc[e] == [FLUX, 0.0, FLUX, 0.0]]
    if closed and draw(st.booleans()):
        sc["bc_default"] = closed           # closed boundaries left to the model's defaults instead of being set explicitly
    if len(sc["durations"]) > 1 and draw(st.integers(0, 2)) == 0:
        # boundary conditions set again between two solve calls: a side closed, a flux switched on, changed or reversed
        # (a change *to* a fixed composition is not generated: the value of such a condition is only written to the profile at set-up)
        calls = []
        cur = {e: list(bc[e]) for e in els[1:]}
        for _ in sc["durations"][1:]:
            ch = {}
            for e in els[1:]:
                if draw(st.booleans()):
                    b = list(cur[e])
                    for k in (0, 2):
                        if draw(st.booleans()):
                            b[k], b[k + 1] = FLUX, float(draw(st.sampled_from([0.0, 0.0, 1.0, -1.0, 0.3])) * jmax)
                    ch[e] = b
                    cur[e] = b
            calls.append(ch)
        sc["bc_calls"] = calls
    if draw(st.integers(0, 2)) == 2:
        sc["prior_bc"] = {e: [COMP, draw(st.floats(0.02, hi)), draw(st.sampled_from([FLUX, COMP])), draw(st.floats(0.02, hi)) * 1e-9] for e in els[1:]}
        for e in els[1:]:
            if sc["prior_bc"][e][2] == COMP:
                sc["prior_bc"][e][3] = draw(st.floats(0.02, hi))
    return sc


def pred_first_step(case, v):
    return bool(v.get("data", {}).get("first_step_of_call"))


PREDICATES = {"first_step_of_later_call": pred_first_step}


def clauses():
    return [
        Clause("stub_runs", _scenario, check_run, quick=4000, thorough=60000, shrink=False,
               rule="generator: {single-phase, homogenization} x binary/ternary x 3-120 nodes x mesh 1e-6..1e-2 m x initial profile from 1-3 build steps {linear, step, single, bounded, function, data} inside the simplex x T {const, break points, field T(z,t)} x per element and side {flux (0 or +-1e-14..1e-9), composition} x Euler/RK4 x 1-4 solve calls x homogenization rule/eps x cache toggles; "
                    "one multi-call case in three sets boundary conditions again between two solve calls (a side closed, a flux switched on, changed or reversed); oracle per accepted step, with the conditions in force: sum_nodes x changes by (J_left-J_right) dt/dz for flux-flux elements (across solve calls too), fixed-composition nodes keep their value, all compositions within [min, 1-min]; non-trivial: non-uniform profile, >= 3 steps and (non-zero flux, composition condition or >= 2 solve calls)"),
    ]
