"""C16 — elastic strain energy is a positive, volume-proportional quadratic form."""
import itertools
import math

import numpy as np
from hypothesis import strategies as st

from ..core import Clause, Out

LEVEL = "exploration"
ASSUMPTIONS = [
    "stiffness tensors are generated mechanically stable: isotropic from (E, nu in [0.05,0.45]); cubic with C11 > |C12|, C11 + 2 C12 > 0, C44 > 0 and Zener ratio in [0.3, 4]",
    "modulus pairs: Poisson ratio / Lame parameter exactly 0 are not generated (moduliToC uses truthiness for 'not supplied'); the (E, M) pair is only used for nu >= 0 (two-valued otherwise)",
    "clauses that depend on the exactness of the sphere quadrature carry the envelope of open finding KF-C16-1 (Lebedev node generator); all algebraic clauses (scaling, variants, setter order, closed-form dilatational sphere) are independent of the node set",
]
ORDERS = {"low": 53, "mid": 83, "high": 131}


def _rot(q):
    q = np.array(q, dtype=float)
    q = q / np.linalg.norm(q)
    w, x, y, z = q
    return np.array([[1 - 2 * (y * y + z * z), 2 * (x * y - z * w), 2 * (x * z + y * w)],
                     [2 * (x * y + z * w), 1 - 2 * (x * x + z * z), 2 * (y * z - x * w)],
                     [2 * (x * z - y * w), 2 * (y * z + x * w), 1 - 2 * (x * x + y * y)]])


def _stiff(spec):
    from kawin.precipitation.parameters import ElasticFactors as EF
    if spec[0] == "iso":
        return EF.moduliToC(E=spec[1], nu=spec[2])
    if spec[0] == "explicit":             # a tensor given as such (already rotated by the harness)
        return np.array(spec[1], dtype=float)
    return EF.elasticConstantToC(spec[1], spec[2], spec[3])


def _eig(spec):
    if spec[0] == "scalar":
        return spec[1]
    if spec[0] == "vector":
        return list(spec[1])
    a = spec[1]
    return np.array([[a[0], a[5], a[4]], [a[5], a[1], a[3]], [a[4], a[3], a[2]]])


def _eig_tensor(spec):
    e = _eig(spec)
    if np.ndim(e) == 0:
        return e * np.eye(3)
    e = np.array(e, dtype=float)
    return np.diag(e) if e.ndim == 1 else e


def _build(case, order="low", rot_first=True, inverse="quick"):
    from kawin.precipitation.parameters.ElasticFactors import StrainEnergy
    # how the ellipsoidal (Eshelby) description is selected: constructor argument, setShape by name (also the plate/needle aliases),
    # the typed setter, a description object, each possibly after another shape had been selected and after the material data
    sapi = case.get("shape_api") or ["ctor", "early"]

    def select(se_):
        from kawin.precipitation.parameters.ElasticFactors import EllipsoidalEnergyDescription
        {"name": lambda: se_.setShape("ellipsoid"), "alias_plate": lambda: se_.setShape("plate"), "alias_needle": lambda: se_.setShape("Needle"),
         "typed": se_.setEllipsoidal, "object": lambda: se_.setShape(EllipsoidalEnergyDescription())}[sapi[0]]()
        se_.description.setLebedevIntegration(order)
        se_.description.setOhmInverseFunction(inverse)
    if sapi[0] == "ctor":
        se = StrainEnergy("ellipsoid")
        se.description.setLebedevIntegration(order)
        se.description.setOhmInverseFunction(inverse)
    else:
        se = StrainEnergy(*([sapi[2]] if len(sapi) > 2 and sapi[2] else []))
        if sapi[1] == "early":
            select(se)
    rot = _rot(case["rot"]) if case.get("rot") else None
    if rot is not None and rot_first:
        se.setRotationMatrix(rot)
    api = case.get("api", "tensor")      # "named": the stiffness entered through setElasticConstants / setModuli (and the precipitate versions)
    def put(spec, tensor_setter, const_setter, moduli_setter):
        if spec[0] == "explicit":
            tensor_setter(_stiff(spec))
        elif api == "named" and spec[0] == "iso":
            moduli_setter(E=spec[1], nu=spec[2])
        elif api == "named":
            const_setter(spec[1], spec[2], spec[3])
        else:
            tensor_setter(_stiff(spec))
    put(case["cM"], se.setElasticTensor, se.setElasticConstants, se.setModuli)
    if case.get("cP"):
        put(case["cP"], se.setElasticTensorPrecipitate, se.setElasticConsantsPrecipitate, se.setModuliPrecipitate)
        if case.get("rotP"):
            se.setRotationPrecipitate(_rot(case["rotP"]))
    if rot is not None and not rot_first:
        se.setRotationMatrix(rot)
    # rotations set earlier on the same object and then replaced (the last one set counts; it may be exactly the identity)
    for q in case.get("rot_hist") or []:
        se.setRotationMatrix(_rot(q))
    if case.get("rot_hist"):
        se.setRotationMatrix(rot if rot is not None else np.eye(3))
    for q in case.get("rotP_hist") or []:
        se.setRotationPrecipitate(_rot(q))
    if case.get("rotP_hist"):
        se.setRotationPrecipitate(_rot(case["rotP"]) if case.get("rotP") else np.eye(3))
    # eigenstrains set earlier on the same object and then replaced (the last one set counts, whatever its form)
    for spec in case.get("eig_hist") or []:
        se.setEigenstrain(_eig(spec))
    se.setEigenstrain(_eig(case["eig"]))
    if sapi[0] != "ctor" and sapi[1] != "early":
        select(se)
    if case.get("bystander"):
        # a second, unrelated object configured afterwards must not reach into this one
        other = StrainEnergy("ellipsoid")
        other.setElasticTensor(_stiff(case["cM"]))
        other.setEigenstrain(_eig(case["bystander"]))
    return se


def check_quadratic(case):
    out = Out()
    r = np.array(case["r"], dtype=float)
    V = 4 * math.pi / 3 * float(np.prod(r))
    se = _build(case)
    d = se.description
    E = float(se.compute(r))
    eigt = _eig_tensor(case["eig"])
    cmax = float(np.max(np.abs(_stiff(case["cM"]))))
    scale = cmax * float(np.max(np.abs(eigt))) ** 2 * V
    shear = bool(np.any(np.abs(eigt - np.diag(np.diag(eigt))) > 0))
    out.label("matrix_" + case["cM"][0], "eig_" + case["eig"][0], "prec_" + (case["cP"][0] if case.get("cP") else "same"))
    if shear:
        out.label("shear_eigenstrain")
    if case.get("rot"):
        out.label("rotated")
    if not np.isfinite(E):
        out.fail("energy_not_finite", "strain energy %r" % E)
        return out
    if scale < 1e-250:
        # products of stiffness, squared eigenstrain and volume this small leave the normal floating-point range
        # (denormal energies carry a few digits only): sign and finiteness are judged above, the relative identities are not
        out.label("energy_in_denormal_range")
        if E < 0:
            out.fail("energy_negative", "strain energy %r < 0" % E, shear=shear)
        return out
    if E < -1e-9 * scale:
        # is the sign a property of the formulas or of the sphere nodes?  kawin's own midpoint integration decides
        sem = _build(case)
        sem.description.setIntegrationIntervals(128, 128)
        Em = float(sem.compute(r))
        nodes_only = bool(np.isfinite(Em) and Em >= -1e-9 * scale)
        out.fail("energy_negative", "strain energy %r < 0 (scale %r) for %r; with the built-in 128x128 midpoint integration instead of the Lebedev nodes: %r" % (E, scale, {k: case[k] for k in ("cM", "cP", "eig", "r")}, Em),
                 shear=shear, nodes_only=nodes_only, dev=(abs(E - Em) / abs(Em) if Em else float("inf")), aspect=float(r.max() / r.min()))
    s = case["s"]
    Es = float(se.compute(r * s))
    if not math.isclose(Es, s ** 3 * E, rel_tol=1e-9, abs_tol=1e-12 * scale * s ** 3):
        out.fail("not_cubic_in_size", "E(%r r) = %r, s^3 E(r) = %r" % (s, Es, s ** 3 * E))
    c = case["c"]
    se2 = _build(dict(case, eig=["tensor", (np.array([eigt[0, 0], eigt[1, 1], eigt[2, 2], eigt[1, 2], eigt[0, 2], eigt[0, 1]]) * c).tolist()]))
    Ec = float(se2.compute(r))
    if not math.isclose(Ec, c * c * E, rel_tol=1e-9, abs_tol=1e-12 * scale * c * c):
        out.fail("not_quadratic_in_strain", "E(%r eps) = %r, c^2 E(eps) = %r" % (c, Ec, c * c * E))
    En = float(_build(case, inverse="numpy").compute(r))
    if not math.isclose(En, E, rel_tol=1e-9, abs_tol=1e-12 * scale):
        out.fail("inverse_routines_differ", "quick inverse %r, numpy inverse %r" % (E, En))
    # variants
    e4, e2 = float(d.strainEnergyEllipsoid(r)), float(d.strainEnergyEllipsoid2ndRank(r))
    if not math.isclose(e4, e2, rel_tol=1e-9, abs_tol=1e-12 * scale):
        out.fail("rank_variants_differ", "homogeneous inclusion: 4th-rank %r, 6x6 %r (eigenstrain %s shear components)" % (e4, e2, "with" if shear else "without"), shear=shear, which="ellipsoid")
    b4, b2 = float(d.strainEnergyBohm(r)), float(d.strainEnergyBohm2ndRank(r))
    if not math.isclose(b4, b2, rel_tol=1e-9, abs_tol=1e-12 * scale):
        out.fail("rank_variants_differ", "inhomogeneous inclusion: 4th-rank %r, 6x6 %r (eigenstrain %s shear components)" % (b4, b2, "with" if shear else "without"), shear=shear, which="bohm",
                 dev=abs(b4 - b2) / max(abs(b4), 1e-300), coupled=bool(case.get("rot")) or case["cM"][0] == "cubic")
    if not case.get("cP"):
        if not math.isclose(b4, e4, rel_tol=1e-9, abs_tol=1e-12 * scale):
            out.fail("bohm_not_homogeneous_limit", "equal stiffnesses: inhomogeneous-inclusion energy %r, homogeneous-inclusion energy %r (ratio %.4f)" % (b4, e4, b4 / e4 if e4 else float("nan")), shear=shear)
    # the stiffness may be entered as a tensor or through the named constants / moduli: same energy
    Ea = float(_build(dict(case, api="named" if case.get("api", "tensor") == "tensor" else "tensor")).compute(r))
    if not math.isclose(Ea, E, rel_tol=1e-9, abs_tol=1e-12 * scale):
        out.fail("entry_point_matters", "stiffness entered as tensor vs through setElasticConstants/setModuli (and precipitate versions): %r vs %r" % (E, Ea))
    if case.get("shape_api"):
        Eb = float(_build(dict(case, shape_api=None)).compute(r))
        out.label("shape_via_" + case["shape_api"][0] + "_" + case["shape_api"][1])
        if not math.isclose(Eb, E, rel_tol=1e-9, abs_tol=1e-12 * scale):
            out.fail("entry_point_matters", "Eshelby description selected by %r: energy %r, through the constructor argument: %r" % (case["shape_api"], E, Eb), what="shape")
    if case.get("eig_hist") or case.get("bystander"):
        Ee = float(_build(dict(case, eig_hist=None, bystander=None)).compute(r))
        out.label("eigenstrain_replaced" if case.get("eig_hist") else "bystander_object")
        if not math.isclose(Ee, E, rel_tol=1e-9, abs_tol=1e-12 * scale):
            out.fail("setter_order_matters", "eigenstrain(s) %r set before the final one / on another object %r: energy %r; same final configuration without them: %r" % (case.get("eig_hist"), case.get("bystander"), E, Ee), what="eigenstrain_history")
    if case.get("rot_hist") or case.get("rotP_hist"):
        Eh = float(_build(dict(case, rot_hist=None, rotP_hist=None)).compute(r))
        out.label("rotation_replaced" + ("_by_identity" if (case.get("rot_hist") and not case.get("rot")) or (case.get("rotP_hist") and not case.get("rotP")) else ""))
        if not math.isclose(Eh, E, rel_tol=1e-9, abs_tol=1e-12 * scale):
            out.fail("setter_order_matters", "rotation(s) %r / %r had been set before the final ones: energy %r; same final configuration without that history: %r" % (case.get("rot_hist"), case.get("rotP_hist"), E, Eh), what="rotation_history")
    if case.get("rotP") and case.get("cP"):
        out.label("precipitate_rotated")
        # the precipitate's own rotation means: its stiffness tensor expressed in the rotated axes.  Handing that tensor over
        # directly (no precipitate rotation) must give the same energy - whatever the matrix rotation is.
        from kawin.precipitation.parameters import ElasticFactors as EF
        c4 = EF.convert2To4rankTensor(_stiff(case["cP"])) if np.ndim(_stiff(case["cP"])) == 2 else _stiff(case["cP"])
        c4r = EF.rotateRank4Tensor(_rot(case["rotP"]), c4)
        Er = float(_build(dict(case, cP=["explicit", c4r.tolist()], rotP=None, rotP_hist=None)).compute(r))
        if not math.isclose(Er, E, rel_tol=1e-9, abs_tol=1e-12 * scale):
            out.fail("precipitate_rotation_not_applied", "precipitate stiffness %r with setRotationPrecipitate: energy %r; the same tensor rotated beforehand and no precipitate rotation: %r (matrix rotation %r)" % (case["cP"], E, Er, case.get("rot")))
    if case.get("rot"):
        # the matrix rotation means: the matrix stiffness expressed in the rotated axes
        from kawin.precipitation.parameters import ElasticFactors as EF
        m4 = EF.convert2To4rankTensor(_stiff(case["cM"])) if np.ndim(_stiff(case["cM"])) == 2 else _stiff(case["cM"])
        m4r = EF.rotateRank4Tensor(_rot(case["rot"]), m4)
        Emr = float(_build(dict(case, cM=["explicit", m4r.tolist()], rot=None, rot_hist=None)).compute(r))
        if not math.isclose(Emr, E, rel_tol=1e-9, abs_tol=1e-12 * scale):
            out.fail("matrix_rotation_not_applied", "matrix stiffness %r with setRotationMatrix: energy %r; the same tensor rotated beforehand and no rotation: %r" % (case["cM"], E, Emr))
        Eo = float(_build(case, rot_first=False).compute(r))
        if not math.isclose(Eo, E, rel_tol=1e-9, abs_tol=1e-12 * scale):
            out.fail("setter_order_matters", "rotation set before the stiffness: %r; after: %r" % (E, Eo))
    nonsph = not (r[0] == r[1] == r[2])
    out.nt(nonsph or case["cM"][0] == "cubic" or bool(case.get("rot")))
    return out


def check_sphere(case):
    """Isotropic matrix, sphere, dilatational eigenstrain: closed form through both paths; Eshelby tensor components."""
    from kawin.precipitation.parameters.ElasticFactors import StrainEnergy
    out = Out()
    E_, nu, eps, R = case["E"], case["nu"], case["eps"], case["R"]
    G = E_ / (2 * (1 + nu))
    V = 4 * math.pi / 3 * R ** 3
    closed = 2 * G * (1 + nu) / (1 - nu) * eps ** 2 * V
    r = np.array([R, R, R])
    for order in ("low", "mid", "high")[: case["norders"]]:
        se = StrainEnergy("ellipsoid")
        se.description.setLebedevIntegration(order)
        se.setModuli(E=E_, nu=nu)
        se.setEigenstrain(eps)
        e = float(se.compute(r))
        if not math.isclose(e, closed, rel_tol=1e-9):
            out.fail("sphere_closed_form", "Eshelby path (%s): %r, closed form 2G(1+nu)/(1-nu) eps^2 V = %r" % (order, e, closed), path="eshelby")
        S = se.description.Sijmn(se.description.Dijkl(r, se.params.cMatrix_4th))
        ref = {"1111": (7 - 5 * nu) / (15 * (1 - nu)), "1122": (5 * nu - 1) / (15 * (1 - nu)), "1212": (4 - 5 * nu) / (15 * (1 - nu))}

        def worst_dev(S):
            comps = {"1111": [S[0, 0, 0, 0], S[1, 1, 1, 1], S[2, 2, 2, 2]], "1122": [S[0, 0, 1, 1], S[0, 0, 2, 2], S[1, 1, 2, 2], S[2, 2, 0, 0]], "1212": [S[0, 1, 0, 1], S[0, 2, 0, 2], S[1, 2, 1, 2]]}
            return max(abs(v - ref[k]) / abs(ref["1212"]) for k, vals in comps.items() for v in vals)
        worst = worst_dev(S)
        if worst > 1e-8:
            out.fail("eshelby_tensor_component", "isotropic sphere (%s Lebedev quadrature): Eshelby tensor deviates from (7-5nu)/(15(1-nu)) etc. by up to %.3e (relative to S1212)" % (order, worst), dev=worst, order=ORDERS[order])
        tr = sum(S[i, i, j, j] for i in range(3) for j in range(3))      # only depends on the weights summing to one
        if not math.isclose(tr, (1 + nu) / (1 - nu), rel_tol=1e-9):
            out.fail("eshelby_trace", "S_iijj = %r, expected (1+nu)/(1-nu) = %r" % (tr, (1 + nu) / (1 - nu)))
    # the same components with the built-in midpoint integration (independent of the Lebedev nodes; accuracy 5e-5 measured at 64x64)
    se = StrainEnergy("ellipsoid")
    se.description.setIntegrationIntervals(64, 64, assumeSymmetric=True)
    se.setModuli(E=E_, nu=nu)
    se.setEigenstrain(eps)
    Sm = se.description.Sijmn(se.description.Dijkl(r, se.params.cMatrix_4th))
    refm = {"1111": (7 - 5 * nu) / (15 * (1 - nu)), "1122": (5 * nu - 1) / (15 * (1 - nu)), "1212": (4 - 5 * nu) / (15 * (1 - nu))}
    cm = {"1111": [Sm[0, 0, 0, 0], Sm[1, 1, 1, 1], Sm[2, 2, 2, 2]], "1122": [Sm[0, 0, 1, 1], Sm[0, 0, 2, 2], Sm[1, 1, 2, 2], Sm[2, 2, 0, 0]], "1212": [Sm[0, 1, 0, 1], Sm[0, 2, 0, 2], Sm[1, 2, 1, 2]]}
    wm = max(abs(v - refm[k]) / abs(refm["1212"]) for k, vals in cm.items() for v in vals)
    if wm > 2e-3:
        out.fail("eshelby_tensor_component_midpoint", "isotropic sphere, midpoint integration 64x64: Eshelby tensor deviates from the textbook components by %.3e (relative to S1212)" % wm)
    e_mid = float(se.compute(r))
    if not math.isclose(e_mid, closed, rel_tol=2e-3):
        out.fail("sphere_closed_form", "Eshelby path with midpoint integration: %r, closed form %r" % (e_mid, closed), path="midpoint")
    # a homogeneous isotropic inclusion with dilatational eigenstrain has a shape-independent energy 2G(1+nu)/(1-nu) eps^2 V
    ar = case.get("ar", 1.0)
    for rr in ([R, R, ar * R], [ar * R, R, R], [ar * R, ar * R, R], [R, 0.5 * (1 + ar) * R, ar * R]):
        Vr = 4 * math.pi / 3 * rr[0] * rr[1] * rr[2]
        e_sh = float(se.compute(rr))
        c_sh = 2 * G * (1 + nu) / (1 - nu) * eps ** 2 * Vr
        if not math.isclose(e_sh, c_sh, rel_tol=2e-2):
            out.fail("dilatational_energy_shape_dependent", "isotropic homogeneous inclusion, radii %r (midpoint integration): %r, shape-independent closed form %r" % (rr, e_sh, c_sh))
    se = StrainEnergy("sphere")
    se.setModuli(E=E_, nu=nu)
    se.setEigenstrain(eps)
    k = float(se.compute(r))
    if not math.isclose(k, closed, rel_tol=1e-9):
        out.fail("sphere_closed_form", "spherical approximation: %r, closed form %r" % (k, closed), path="khachaturyan")
    out.nt(True)
    return out


def check_orientation(case):
    """Energy does not depend on which axis is long (isotropic matrix), nor on the matrix orientation for a
    sphere with dilatational strain (cubic matrix); agreement between quadrature orders."""
    from kawin.precipitation.parameters.ElasticFactors import StrainEnergy
    out = Out()
    a, ar = case["a"], case["ar"]
    kind = case["kind"]
    if kind == "axis":
        se = StrainEnergy("ellipsoid")
        se.description.setIntegrationIntervals(64, 64, assumeSymmetric=True)
        se.setModuli(E=case["E"], nu=case["nu"])
        se.setEigenstrain(case["eps"])
        arm = min(ar, 5.0)
        rs = [[a, a, arm * a], [arm * a, a, a], [a, arm * a, a]] if case["shape"] == "needle" else [[arm * a, arm * a, a], [a, arm * a, arm * a], [arm * a, a, arm * a]]
        es = [float(se.compute(r)) for r in rs]
        devm = (max(es) - min(es)) / abs(es[0])
        if devm > 1.5e-2:       # midpoint rule 64x64: measured <= 4.6e-3 for aspect ratio <= 5, nu <= 0.45
            out.fail("axis_permutation_midpoint", "%s (aspect ratio %.3g) in an isotropic matrix, midpoint integration: energies %r for the long axis along z/x/y" % (case["shape"], arm, es))
        vals = {}
        for order in ("low", "mid", "high")[: case["norders"]]:
            se = StrainEnergy("ellipsoid")
            se.description.setLebedevIntegration(order)
            se.setModuli(E=case["E"], nu=case["nu"])
            se.setEigenstrain(case["eps"])
            if case["shape"] == "needle":
                rs = [[a, a, ar * a], [ar * a, a, a], [a, ar * a, a]]
            else:
                rs = [[ar * a, ar * a, a], [a, ar * a, ar * a], [ar * a, a, ar * a]]
            es = [float(se.compute(r)) for r in rs]
            vals[order] = es[0]
            dev = (max(es) - min(es)) / abs(es[0])
            if dev > 1e-8:
                out.fail("axis_permutation", "%s (aspect ratio %.3g) in an isotropic matrix, %s quadrature: energies %r for the long axis along z/x/y (spread %.3e)" % (case["shape"], ar, order, es, dev), dev=dev, order=ORDERS[order], ar=ar)
        if len(vals) > 1:
            ref = vals[list(vals)[-1]]
            dev = max(abs(v - ref) / abs(ref) for v in vals.values())
            if dev > 1e-8:
                out.fail("order_disagreement", "%s aspect ratio %.3g: quadrature orders give %r (spread %.3e)" % (case["shape"], ar, vals, dev), dev=dev, order=53, ar=ar)
        out.nt(ar > 1.01)
    elif kind == "relabel":
        # a triaxial ellipsoid with a different eigenstrain along each axis, described with its axes relabelled cyclically
        # (x,y,z) -> (z,x,y) -> (y,z,x): a rotation by 120 degrees about [111], which maps an isotropic or an aligned cubic matrix
        # onto itself, so radii and eigenstrain permuted together describe the same body in the same matrix
        r = [a * f for f in case["f"]]
        e = case["eig"]
        es = []
        for sh in range(3):
            se = StrainEnergy("ellipsoid")
            se.description.setIntegrationIntervals(64, 64, assumeSymmetric=True)
            if case.get("cubic"):
                se.setElasticConstants(*case["cubic"])
            else:
                se.setModuli(E=case["E"], nu=case["nu"])
            se.setEigenstrain([e[(i - sh) % 3] for i in range(3)])
            es.append(float(se.compute([r[(i - sh) % 3] for i in range(3)])))
        devm = (max(es) - min(es)) / max(abs(v) for v in es)
        if devm > 1.5e-2:       # midpoint rule 64x64 on an octant: measured <= 2.1e-3 for axis ratios <= 4 (150 random cases), <= 4.6e-3 for spheroids of ratio 5
            out.fail("axis_relabelling_midpoint", "ellipsoid with semi-axes %r and eigenstrain %r along them in %s matrix, midpoint integration: energies %r for the three cyclic relabellings of the axes" % (case["f"], e, "an aligned cubic" if case.get("cubic") else "an isotropic", es), dev=devm)
        out.nt(len(set(case["f"][:2])) == 2 and len(set(e[:2])) == 2)
    else:
        esm = []
        for q in [None] + case["rots"]:
            se = StrainEnergy("ellipsoid")
            se.description.setIntegrationIntervals(48, 48, assumeSymmetric=False)
            if q is not None:
                se.setRotationMatrix(_rot(q))
            se.setElasticConstants(*case["cubic"])
            se.setEigenstrain(case["eps"])
            esm.append(float(se.compute([a, a, a])))
        devm = (max(esm) - min(esm)) / abs(esm[0])
        if devm > 2e-3:         # full-sphere midpoint rule 48x48: measured 2e-5
            out.fail("matrix_orientation_midpoint", "sphere with dilatational strain in a cubic matrix, midpoint integration: energies %r under rotations of the matrix axes" % esm)
        es = []
        for q in [None] + case["rots"]:
            se = StrainEnergy("ellipsoid")
            se.description.setLebedevIntegration("low")
            if q is not None:
                se.setRotationMatrix(_rot(q))
            se.setElasticConstants(*case["cubic"])
            se.setEigenstrain(case["eps"])
            es.append(float(se.compute([a, a, a])))
        dev = (max(es) - min(es)) / abs(es[0])
        if dev > 1e-9:
            out.fail("matrix_orientation", "sphere with dilatational strain in a cubic matrix: energies %r under rotations of the matrix axes" % es, dev=dev, order=53)
        out.nt(True)
    out.label(kind)
    return out


def _sphere_avg(a, b, c):
    if a % 2 or b % 2 or c % 2:
        return 0.0
    return math.gamma((a + 1) / 2) * math.gamma((b + 1) / 2) * math.gamma((c + 1) / 2) / math.gamma((a + b + c + 3) / 2) / (2 * math.pi)


def check_lebedev(case):
    from kawin.precipitation.parameters.LebedevNodes import loadPoints
    out = Out()
    order = case["order"]
    phi, theta, w = loadPoints(order)
    n = np.array([np.sin(theta) * np.cos(phi), np.sin(theta) * np.sin(phi), np.cos(theta)])
    if not math.isclose(float(np.sum(w)), 1.0, rel_tol=1e-9):
        out.fail("weights_not_normalised", "order %d: weights sum to %r" % (order, float(np.sum(w))))
    if np.any(w <= 0):
        out.fail("weights_not_positive", "order %d: %d non-positive weights" % (order, int(np.sum(w <= 0))))
    if np.max(np.abs(np.sum(n * n, axis=0) - 1)) > 1e-12:
        out.fail("nodes_off_sphere", "order %d: nodes are not on the unit sphere" % order)
    a, b, c = case["mono"]
    val = float(np.sum(w * n[0] ** a * n[1] ** b * n[2] ** c))
    ex = _sphere_avg(a, b, c)
    deg = a + b + c
    if ex == 0:
        if abs(val) > 1e-12:
            out.fail("odd_monomial_nonzero", "order %d: average of x^%d y^%d z^%d = %r, exact 0" % (order, a, b, c, val), dev=abs(val))
    else:
        dev = abs(val - ex) / ex
        if dev > 1e-9 and deg <= order:
            out.fail("quadrature_inexact", "order %d rule: average of x^%d y^%d z^%d = %r, exact %r (rel. dev. %.3e) although the degree %d <= %d" % (order, a, b, c, val, ex, dev, deg, order), dev=dev, order=order, degree=deg)
    out.label("order_%d" % order, "degree_%d" % deg)
    out.nt(deg >= 2 and ex != 0)
    return out


def check_conversions(case):
    from kawin.precipitation.parameters import ElasticFactors as EF
    out = Out()
    m = np.array(case["sym6"], dtype=float).reshape(6, 6)
    m = 0.5 * (m + m.T)
    c4 = EF.convert2To4rankTensor(m)
    back = EF.convert4To2rankTensor(c4)
    if not np.array_equal(back, m):
        out.fail("rank_roundtrip", "6x6 -> 3x3x3x3 -> 6x6 does not reproduce the tensor")
    for (i, j, k, l) in itertools.product(range(3), repeat=4):
        if c4[i, j, k, l] != c4[j, i, k, l] or c4[i, j, k, l] != c4[i, j, l, k] or c4[i, j, k, l] != c4[k, l, i, j]:
            out.fail("rank4_symmetry", "4th-rank tensor built from a symmetric 6x6 array lacks a minor/major symmetry")
            break
    v = np.array(case["vec"], dtype=float)
    t = EF.convertVecTo2rankTensor(v)
    if not np.array_equal(EF.convert2rankToVec(t), v) or not np.array_equal(t, t.T):
        out.fail("vector_roundtrip", "strain vector -> tensor -> vector does not round-trip")
    # modulus pairs
    E_, nu = case["E"], case["nu"]
    G = E_ / (2 * (1 + nu))
    lam = E_ * nu / ((1 + nu) * (1 - 2 * nu))
    K = E_ / (3 * (1 - 2 * nu))
    M = lam + 2 * G
    vals = {"E": E_, "nu": nu, "G": G, "lam": lam, "K": K, "M": M}
    ref = EF.moduliToC(E=E_, nu=nu)
    for a, b in itertools.combinations(vals, 2):
        if {a, b} == {"E", "M"} and nu < 0:
            continue
        got = EF.moduliToC(**{a: vals[a], b: vals[b]})
        if not np.allclose(got, ref, rtol=1e-8, atol=1e-8 * np.max(np.abs(ref))):
            out.fail("modulus_pair", "moduliToC(%s=%r, %s=%r) differs from the stiffness of E=%r nu=%r (max rel %.2e)" % (a, vals[a], b, vals[b], E_, nu, float(np.max(np.abs(got - ref)) / np.max(np.abs(ref)))), pair="%s,%s" % (a, b))
    # rotations
    R = _rot(case["rot"])
    iso4 = EF.convert2To4rankTensor(ref)
    if not np.allclose(EF.rotateRank4Tensor(R, iso4), iso4, rtol=0, atol=1e-9 * np.max(np.abs(iso4))):
        out.fail("isotropic_not_invariant", "rotating an isotropic stiffness tensor changed it")
    cub4 = EF.convert2To4rankTensor(EF.elasticConstantToC(*case["cubic"]))
    rr = EF.rotateRank4Tensor(R.T, EF.rotateRank4Tensor(R, cub4))
    if not np.allclose(rr, cub4, rtol=0, atol=1e-9 * np.max(np.abs(cub4))):
        out.fail("rotation_not_invertible", "rotating a cubic stiffness by R and then by R^T does not restore it")
    ref4 = np.einsum("im,jn,ko,lp,mnop->ijkl", R, R, R, R, cub4)
    if not np.allclose(EF.rotateRank4Tensor(R, cub4), ref4, rtol=0, atol=1e-9 * np.max(np.abs(cub4))):
        out.fail("rank4_rotation_rule", "rotateRank4Tensor differs from T'_ijkl = R_im R_jn R_ko R_lp T_mnop")
    if not np.allclose(EF.rotateRank2Tensor(R, t), R @ t @ R.T, rtol=0, atol=1e-12 * max(1.0, np.max(np.abs(t)))):
        out.fail("rank2_rotation_rule", "rotateRank2Tensor differs from R T R^T")
    out.nt(True)
    return out


# ---------------------------------------------------------------- generators

@st.composite
def _stiffness(draw):
    if draw(st.booleans()):
        return ["iso", 10 ** draw(st.floats(10, 11.7)), draw(st.floats(0.05, 0.45))]
    c44 = 10 ** draw(st.floats(10, 11.3))
    A = draw(st.floats(0.3, 4.0))
    diff = 2 * c44 / A                     # C11 - C12
    c12 = diff * draw(st.floats(0.2, 3.0))
    return ["cubic", c12 + diff, c12, c44]


@st.composite
def _eigs(draw):
    k = draw(st.sampled_from(["scalar", "vector", "tensor", "tensor"]))
    f = lambda: draw(st.floats(-0.05, 0.05))
    if k == "scalar":
        return ["scalar", draw(st.floats(0.001, 0.05)) * draw(st.sampled_from([1.0, -1.0]))]
    if k == "vector":
        return ["vector", [f(), f(), f()]]
    v = [f(), f(), f(), f(), f(), f()]
    if draw(st.booleans()):
        v[3] = v[4] = v[5] = 0.0
    return ["tensor", v]


@st.composite
def _quad_case(draw):
    a = 10 ** draw(st.floats(-10, -7))
    shape = draw(st.sampled_from(["sphere", "needle", "plate", "general"]))
    ar = draw(st.floats(1.0, 20.0))
    if shape == "sphere":
        r = [a, a, a]
    elif shape == "needle":
        r = [a, a, a * ar]
    elif shape == "plate":
        r = [a * ar, a * ar, a]
    else:
        r = [a, a * draw(st.floats(1, 5)), a * ar]
    case = {"cM": draw(_stiffness()), "cP": draw(st.one_of(st.none(), _stiffness())), "eig": draw(_eigs()), "r": r,
            "s": draw(st.floats(0.1, 10)), "c": draw(st.floats(0.1, 5)) * draw(st.sampled_from([1.0, -1.0]))}
    if draw(st.booleans()):
        case["rot"] = [draw(st.floats(-1, 1)) for _ in range(3)] + [draw(st.floats(0.1, 1))]
    if case["cP"] is not None and draw(st.integers(0, 2)) == 2:
        case["rotP"] = [draw(st.floats(-1, 1)) for _ in range(3)] + [draw(st.floats(0.1, 1))]      # the precipitate's own rotation
    if draw(st.booleans()):
        case["api"] = "named"
    if draw(st.integers(0, 4)) == 4:
        case["eig_hist"] = [draw(_eigs()) for _ in range(draw(st.integers(1, 2)))]
    if draw(st.integers(0, 4)) == 4:
        case["bystander"] = draw(_eigs())
    if draw(st.integers(0, 3)) == 3:
        case["rot_hist"] = [[draw(st.floats(-1, 1)) for _ in range(3)] + [draw(st.floats(0.1, 1))] for _ in range(draw(st.integers(1, 2)))]
    if case["cP"] is not None and draw(st.integers(0, 5)) == 5:
        case["rotP_hist"] = [[draw(st.floats(-1, 1)) for _ in range(3)] + [draw(st.floats(0.1, 1))]]
    if draw(st.integers(0, 2)) == 2:
        case["shape_api"] = [draw(st.sampled_from(["name", "alias_plate", "alias_needle", "typed", "object"])), draw(st.sampled_from(["early", "late"])),
                             draw(st.sampled_from([None, None, "sphere", "cube", "constant"]))]
    return case


@st.composite
def _sphere_case(draw):
    return {"E": 10 ** draw(st.floats(10, 11.7)), "nu": draw(st.floats(0.05, 0.45)), "eps": draw(st.floats(0.001, 0.05)), "R": 10 ** draw(st.floats(-10, -7)), "norders": draw(st.sampled_from([1, 1, 2, 3])), "ar": draw(st.floats(1.0, 5.0))}


@st.composite
def _orient_case(draw):
    kind = draw(st.sampled_from(["axis", "axis", "matrix", "relabel"]))
    c = {"kind": kind, "a": 10 ** draw(st.floats(-10, -7)), "ar": draw(st.floats(1.0, 10.0)), "eps": draw(st.floats(0.001, 0.05))}
    if kind == "relabel":
        f = [1.0, draw(st.floats(1.0, 4.0)), draw(st.floats(1.0, 4.0))]
        c["f"] = list(draw(st.permutations(f)))
        c["eig"] = [draw(st.floats(0.001, 0.05)) * draw(st.sampled_from([1.0, 1.0, -1.0])) for _ in range(3)]
        if draw(st.booleans()):
            s = draw(_stiffness())
            while s[0] != "cubic":
                s = draw(_stiffness())
            c["cubic"] = s[1:]
        else:
            c.update({"E": 10 ** draw(st.floats(10, 11.7)), "nu": draw(st.floats(0.05, 0.45))})
    elif kind == "axis":
        c.update({"E": 10 ** draw(st.floats(10, 11.7)), "nu": draw(st.floats(0.05, 0.45)), "shape": draw(st.sampled_from(["needle", "plate"])), "norders": draw(st.sampled_from([1, 1, 2, 3]))})
    else:
        s = draw(_stiffness())
        while s[0] != "cubic":
            s = draw(_stiffness())
        c.update({"cubic": s[1:], "rots": [[draw(st.floats(-1, 1)) for _ in range(3)] + [draw(st.floats(0.1, 1))] for _ in range(draw(st.integers(1, 3)))]})
    return c


@st.composite
def _leb_case(draw):
    deg = draw(st.integers(0, 12))
    a = draw(st.integers(0, deg))
    b = draw(st.integers(0, deg - a))
    return {"order": draw(st.sampled_from([53, 83, 131])), "mono": [a, b, deg - a - b]}


@st.composite
def _conv_case(draw):
    s = draw(_stiffness())
    while s[0] != "cubic":
        s = draw(_stiffness())
    return {"sym6": [draw(st.floats(-1e11, 1e11)) for _ in range(36)], "vec": [draw(st.floats(-0.1, 0.1)) for _ in range(6)],
            "E": 10 ** draw(st.floats(10, 11.7)), "nu": draw(st.one_of(st.floats(0.02, 0.48), st.floats(-0.5, -0.02))),
            "rot": [draw(st.floats(-1, 1)) for _ in range(3)] + [draw(st.floats(0.1, 1))], "cubic": s[1:]}


# envelopes of the open Lebedev finding: measured deviations x 1.5 (see DESIGN.md)
ENVELOPE_MONO = {53: 0.25, 83: 0.18, 131: 0.12}
# derived quantities (tensor components, axis permutation, order agreement, matrix orientation) are judged strictly with the built-in
# midpoint integration, which does not use the Lebedev nodes; with the Lebedev nodes they only have to stay inside a sanity envelope
ENVELOPE_TENSOR = {53: 0.5, 83: 0.5, 131: 0.5}
ENVELOPE_ENERGY = 3.0


def pred_lebedev(case, v):
    d = v.get("data", {})
    dev = d.get("dev")
    if not isinstance(dev, (int, float)):
        return False
    k = v["kind"]
    if k == "quadrature_inexact":
        return d.get("degree", 0) >= 2 and dev <= ENVELOPE_MONO.get(d.get("order"), 0)
    if k == "eshelby_tensor_component":
        return dev <= ENVELOPE_TENSOR.get(d.get("order"), 0)
    if k in ("axis_permutation", "order_disagreement"):
        return dev <= ENVELOPE_ENERGY
    if k == "matrix_orientation":
        return dev <= 0.2
    if k == "odd_monomial_nonzero":
        return dev <= 2e-3
    if k == "rank_variants_differ":
        return d.get("which") == "bohm" and not d.get("shear") and bool(d.get("coupled")) and dev <= 1e-3
    return False


def pred_negative_nodes_only(case, v):
    """Negative energy that disappears with kawin's midpoint integration on a non-spherical particle: the sphere nodes, not the formulas."""
    d = v.get("data", {})
    r = case.get("r", [1, 1, 1])
    return bool(d.get("nodes_only")) and max(r) / min(r) >= 5 and isinstance(d.get("dev"), (int, float)) and d["dev"] <= ENVELOPE_ENERGY


PREDICATES = {"lebedev_nodes_inexact": pred_lebedev, "negative_with_lebedev_nodes_only": pred_negative_nodes_only}


def clauses():
    return [
        Clause("quadratic", _quad_case, check_quadratic, quick=1200, thorough=60000,
               rule="generator: matrix stiffness (isotropic/cubic, Zener ratio 0.3-4) x precipitate stiffness (same/isotropic/cubic) x eigenstrain (scalar/vector/symmetric tensor, |eps| <= 0.05) x semi-axes (sphere/needle/plate/general, aspect <= 20) x optional rotation of the matrix and of the precipitate (possibly set after other rotations on the same object, the final one possibly the identity) x stiffness entered as tensor or through the named constants/moduli x Eshelby description selected by the constructor argument, by name/alias, typed setter or description object, before or after the material data, optionally after another shape; "
                    "oracle: E >= 0, E(s r) = s^3 E(r), E(c eps) = c^2 E(eps), quick vs numpy 3x3 inverse, 4th-rank vs 6x6 variants, inhomogeneous = homogeneous result for equal stiffness, rotation/stiffness setter order, entry point of the stiffness; non-trivial: non-spherical, cubic or rotated"),
        Clause("sphere", _sphere_case, check_sphere, quick=300, thorough=15000,
               rule="generator: isotropic (E, nu), dilatational eigenstrain, radius, 1-3 quadrature orders; closed form 2G(1+nu)/(1-nu) eps^2 V through the Eshelby path and the spherical approximation (1e-9), textbook Eshelby tensor components and trace"),
        Clause("orientation", _orient_case, check_orientation, quick=300, thorough=15000,
               rule="generator: needle/plate with the long (short) axis along x, y or z in an isotropic matrix (1-3 quadrature orders), spheres with dilatational strain in a rotated cubic matrix, and (1 in 4) triaxial ellipsoids (axis ratios 1-4) with a different eigenstrain along each axis in an isotropic or aligned cubic matrix described under the three cyclic relabellings of the axes (midpoint integration, 1.5 % against a measured 0.2 %); energies must coincide"),
        Clause("lebedev", _leb_case, check_lebedev, quick=600, thorough=6000,
               rule="generator: quadrature order {53, 83, 131} x monomial x^a y^b z^c of total degree 0-12: weights sum to 1 and are positive, nodes on the unit sphere, monomial averages equal the exact Gamma-function values, odd monomials vanish"),
        Clause("conversions", _conv_case, check_conversions, quick=800, thorough=40000,
               rule="generator: symmetric 6x6 arrays, strain vectors, (E, nu incl. auxetic) -> all 15 modulus pairs, random proper rotations, cubic constants; round trips, pair equivalence, rotation rules"),
    ]
