"""C02 — reported precipitate statistics are moments of the size distribution."""
from hypothesis import strategies as st

from ..core import Clause, Out
from .. import harness_kwn as H, scen
from ..massmoment import StepOracle
from . import c01

LEVEL = "exploration"
ASSUMPTIONS = [
    "documented removals applied before taking moments: classes at/below the driving-force index, classes below the minimum radius; classes holding < 1 particle per m^3 bound the difference to the recorded PSD history",
    "number-density growth per step is bounded by dt x the maximum nucleation rate over the iterator stages (the model's step-size correction recomputes the increment from the most recent stage)",
    "re-mesh particle-number jumps and truncation of negative classes on temperature-changing steps are labelled, not judged (documented bookkeeping)",
]


@st.composite
def _with_recording(draw, base):
    sc = draw(base)
    names = [p["name"] for p in sc["phases"]]
    # recording with adaptive binning off raises in PopulationBalanceModel.record (documented TODO there): not generated
    sc["record_psd"] = [n for n in names if draw(st.booleans())] if sc["pbm"].get("adaptive", True) else []
    if sc["system"] in ("toy_bin", "toy_multi") and draw(st.integers(0, 3)) == 0:
        scen.draw_reconfigure(draw, sc)          # energies changed, reset(), second run on the same model
    return sc


def check(sc):
    return c01._check(sc, mass=False, moments=True)


def clauses():
    return [
        Clause("toy_binary", lambda: _with_recording(scen.toy_binary_scenario(cap=400, allow_elastic=True, allow_param_calls=True)), check, quick=240, thorough=4000, shrink=False,
               rule="generator: (1 case in 4 with a change of an interfacial or the grain-boundary energy, reset() and a second run of the same model, judged against the scenario with the new energies; 1 multi-call case in 5 with the molar volume of a precipitate phase set again between solve calls) C01 toy binary scenarios with PSD recording on a random subset of phases; per accepted step: density / mean radius / volume fraction vs moments of the snapshot distribution, recorded PSD row vs the same moments, number-density step bound; non-trivial: populated on >= 10 steps"),
        Clause("toy_multi", lambda: _with_recording(scen.toy_multi_scenario(cap=250, allow_shapes=True, allow_param_calls=True)), check, quick=120, thorough=2000, shrink=False,
               rule="generator: toy ternary scenarios, same oracles"),
        Clause("real_db", lambda: _with_recording(scen.real_scenario(cap=100)), check, quick=24, thorough=300, shrink=False,
               rule="generator: Al-Zr and Ni-Al-Cr scenarios on the shipped databases (see C01), PSD recording on a random subset; same oracles"),
    ]
