"""C09 query-purity clauses on the shipped databases: model-based query sequences against a cache-free reference object."""
import io
import sys

import numpy as np
from hypothesis import strategies as st

from ..core import Clause, Out
from .. import realdb

SYS = {
    "alzr": {"obj": "alzr:tangent", "binary": True, "phases": ["AL3ZR"], "x": [(2e-4, 8e-3)], "T": (600.0, 850.0)},
    "almgsi": {"obj": "almgsi:tangent", "binary": False, "phases": ["MGSI_B_P", "MG5SI6_B_DP", "B_PRIME_L", "U1_PHASE", "U2_PHASE"], "x": [(0.003, 0.012), (0.003, 0.012)], "T": (420.0, 540.0), "T_hot": (600.0, 800.0)},
    "nicral": {"obj": "nicral:tangent", "binary": False, "phases": ["FCC_L12"], "x": [(0.04, 0.11), (0.07, 0.13)], "T": (950.0, 1200.0), "T_hot": (1250.0, 1400.0)},
    # the sampling method has no warm start (the mechanism of KF-C09-4): with the sample cache retained it must be history independent,
    # also across temperature jumps into the undersaturated range (up to 1350 K)
    "nicral_sampling": {"obj": "nicral:sampling", "binary": False, "phases": ["FCC_L12"], "x": [(0.04, 0.11), (0.07, 0.13)], "T": (950.0, 1350.0)},
}


def _same(a, b, rtol, atol):
    a, b = np.asarray(a, dtype=float), np.asarray(b, dtype=float)
    return a.shape == b.shape and np.allclose(a, b, rtol=rtol, atol=atol, equal_nan=True)


def check_sequence(case):
    out = Out()
    cfg = SYS[case["system"]]
    W = realdb.get(cfg["obj"])
    REF = realdb.get(cfg["obj"] + "#ref")
    so = sys.stdout
    sys.stdout = io.StringIO()
    ordered = case["system"].startswith("nicral")
    nq = 0
    jumped = False
    lastT = None
    warm = False           # a driving-force query with the cache retained has been made since the last clear: later ones are warm-started
    shared = None
    dens0 = None
    try:
        W.clearCache()
        for k, op in enumerate(case["ops"]):
            kind = op["kind"]
            if kind == "clear":
                W.clearCache()
                warm = False
                continue
            if kind == "density":
                # the sampling density is a setting of the object: set on the object with history and on the reference alike;
                # answers after it belong to the new density, whatever was sampled before
                if dens0 is None:
                    dens0 = (W.sampling_pDens, REF.sampling_pDens)
                W.setDFSamplingDensity(int(op["value"]))
                REF.setDFSamplingDensity(int(op["value"]))
                out.label("sampling_density_changed_between_queries")
                continue
            x = np.array(op["x"], dtype=float)          # (n, nsolutes)
            T = np.array(op["T"], dtype=float)          # (n,)
            n = len(T)
            ph = cfg["phases"][op["phase"] % len(cfg["phases"])]
            rc = op["removeCache"]
            if lastT is not None and abs(T[0] - lastT) > 1:
                jumped = True
            if lastT is not None and 0 < abs(T[0] - lastT) < 0.1:
                out.label("tiny_temperature_change")
            lastT = T[-1]
            xarg = (x[:, 0].copy() if n > 1 else float(x[0, 0])) if cfg["binary"] else (x.copy() if n > 1 else x[0].copy())
            if case.get("shared_buffer") and not cfg["binary"] and n == 1:
                # the caller keeps one composition array and updates it in place between queries (a loop over nodes or alloys): an
                # answer must belong to the values the array holds at the time of the call
                if shared is None:
                    shared = np.zeros(x.shape[1])
                shared[:] = x[0]
                xarg = shared
                out.label("caller_buffer_updated_in_place")
            Targ = T.copy() if n > 1 else float(T[0])
            keep = [np.array(xarg).copy(), np.array(Targ).copy()]

            def ref_scalar(i, fn):
                REF.clearCache()
                xi = float(x[i, 0]) if cfg["binary"] else x[i].copy()
                return fn(REF, xi, float(T[i]))

            def unchanged():
                return np.array(xarg).tobytes() == keep[0].tobytes() and np.array(Targ).tobytes() == keep[1].tobytes()

            nq += 1
            if kind == "df":
                if ordered and not case.get("gp_retained") and not case.get("retained_ok"):
                    rc = True          # region of open finding KF-C09-4 (retained cache on the order/disorder system) is excluded by construction
                    out.label("excluded_gamma_prime_retained_cache")
                dg, xp = W.getDrivingForce(xarg, Targ, precPhase=ph, removeCache=rc)
                dg2, xp2 = W.getDrivingForce(xarg, Targ, precPhase=ph, removeCache=rc)
                if not unchanged():
                    out.fail("argument_modified", "op %d getDrivingForce modified its arguments" % k)
                dg, dg2 = np.atleast_1d(dg), np.atleast_1d(dg2)
                for i in range(n):
                    r = ref_scalar(i, lambda o, xi, Ti: o.getDrivingForce(xi, Ti, precPhase=ph, removeCache=True))
                    rdg, rxp = r
                    if rdg is None or dg[i] is None:
                        continue
                    rt, at = (5e-2, 1.5) if ordered else (1e-6, 1.05)
                    if not _same(dg[i], rdg, rt, at):
                        out.fail("driving_force_history_dependent", "%s op %d (%s, removeCache=%s, element %d of %d): x=%r T=%r: %r from the object with history, %r from a cache-free object" % (case["system"], k, ph, rc, i, n, x[i].tolist(), T[i], float(dg[i]), float(rdg)), removeCache=bool(rc), warm=warm)
                    if not _same(dg[i], dg2[i], rt, at):
                        out.fail("repeat_differs", "%s op %d: repeating the driving-force query gives %r then %r" % (case["system"], k, float(dg[i]), float(dg2[i])), removeCache=bool(rc), warm=True)
                    xpi = np.atleast_2d(np.asarray(xp, dtype=float).reshape(n, -1))[i]
                    if not _same(xpi, np.atleast_1d(rxp), 0, 1e-2 if ordered else 1e-5):
                        out.fail("nucleus_composition_history_dependent", "%s op %d (%s): precipitate composition %r vs cache-free %r" % (case["system"], k, ph, xpi.tolist(), np.atleast_1d(rxp).tolist()), removeCache=bool(rc), warm=warm)
                if not rc:
                    warm = True
            elif kind == "ic" and cfg["binary"]:
                g = np.array(op["g"], dtype=float)
                g0 = g.copy()
                xa, xb = W.getInterfacialComposition(float(T[0]), g, precPhase=ph)
                xa2, _ = W.getInterfacialComposition(float(T[0]), g, precPhase=ph)
                if g.tobytes() != g0.tobytes():
                    out.fail("argument_modified", "op %d getInterfacialComposition modified the Gibbs-Thomson array (%r -> %r)" % (k, g0[:2].tolist(), g[:2].tolist()))
                    g = g0.copy()
                xa, xa2 = np.atleast_1d(xa), np.atleast_1d(xa2)
                if not _same(xa, xa2, 1e-9, 0):
                    out.fail("repeat_differs", "op %d: repeating the interfacial-composition query changes the answer" % k)
                for i in range(len(g)):
                    REF.clearCache()
                    ra, rb = REF.getInterfacialComposition(float(T[0]), float(g0[i]), precPhase=ph)
                    rs, _ = REF.getInterfacialComposition(float(T[0]), float(g0[i]) + 1.0, precPhase=ph)
                    tol = abs(float(rs) - float(ra)) * 1.5 + 1e-7 if float(ra) > 0 and float(rs) > 0 else 1e-7
                    if (float(ra) == -1) != (xa[i] == -1) or (float(ra) != -1 and abs(xa[i] - float(ra)) > tol):
                        out.fail("interfacial_composition_batch_dependent", "op %d: T=%r g=%r: %r inside an array of %d, %r alone" % (k, T[0], g0[i], xa[i], len(g), float(ra)))
                # the pairwise form: arrays of temperatures and Gibbs-Thomson energies of equal length (cycles, repeats, equal end points)
                if op.get("Tpairs"):
                    Tp = np.array([q[0] for q in op["Tpairs"]], dtype=float)
                    gp = np.array([q[1] for q in op["Tpairs"]], dtype=float)
                    Tp0, gp0 = Tp.copy(), gp.copy()
                    pa, _ = W.getInterfacialComposition(Tp, gp, precPhase=ph)
                    pa = np.atleast_1d(pa)
                    if Tp.tobytes() != Tp0.tobytes() or gp.tobytes() != gp0.tobytes():
                        out.fail("argument_modified", "op %d pairwise getInterfacialComposition modified its arrays" % k)
                    for i in range(len(Tp0)):
                        REF.clearCache()
                        ra, _ = REF.getInterfacialComposition(float(Tp0[i]), float(gp0[i]), precPhase=ph)
                        rs, _ = REF.getInterfacialComposition(float(Tp0[i]), float(gp0[i]) + 1.0, precPhase=ph)
                        tol = abs(float(rs) - float(ra)) * 1.5 + 1e-7 if float(ra) > 0 and float(rs) > 0 else 1e-7
                        if len(pa) != len(Tp0) or (float(ra) == -1) != (pa[i] == -1) or (float(ra) != -1 and abs(pa[i] - float(ra)) > tol):
                            out.fail("interfacial_composition_batch_dependent", "op %d: pairwise call T=%r g=%r: element %d is %r inside the arrays, %r alone" % (k, Tp0.tolist(), gp0.tolist(), i, pa[i] if len(pa) == len(Tp0) else pa.tolist(), float(ra)))
                            break
                    out.label("ic_pairwise_arrays")
            elif kind == "icm" and not cfg["binary"]:
                # multicomponent interfacial composition: an array of Gibbs-Thomson energies vs one call per energy on the cache-free object
                g = np.array(op["g"], dtype=float)
                if op.get("g_int"):
                    # the same energies handed over as integers (a list of ints; the documented default is the integer 0): the
                    # temperature, which is not a whole number, must not be affected by the dtype of another argument
                    g = np.round(g)
                    g_arg = [int(v) for v in g]
                    out.label("icm_integer_energies")
                else:
                    g_arg = g
                g0 = g.copy()
                xi = x[0].copy()
                ca, cb = W.getInterfacialComposition(xi, float(T[0]), g_arg, precPhase=ph)
                ca2, cb2 = W.getInterfacialComposition(xi, float(T[0]), g_arg, precPhase=ph)
                if g.tobytes() != g0.tobytes() or xi.tobytes() != x[0].tobytes():
                    out.fail("argument_modified", "op %d getInterfacialComposition (multicomponent) modified its arguments" % k)
                ca, cb, ca2 = np.atleast_2d(np.asarray(ca, dtype=float)), np.atleast_2d(np.asarray(cb, dtype=float)), np.atleast_2d(np.asarray(ca2, dtype=float))
                rt, at = (1e-2, 2e-3) if ordered else (1e-6, 1e-9)
                if not _same(ca, ca2, rt, at):
                    out.fail("repeat_differs", "op %d: repeating the multicomponent interfacial-composition query changes the answer" % k, removeCache=True, warm=False)
                for i in range(len(g0)):
                    REF.clearCache()
                    ra, rb = REF.getInterfacialComposition(x[0].copy(), float(T[0]), float(g0[i]), precPhase=ph)
                    ra, rb = np.asarray(ra, dtype=float).reshape(-1), np.asarray(rb, dtype=float).reshape(-1)
                    if ca.shape[0] != len(g0) or not _same(ca[i], ra, rt, at) or not _same(cb[i], rb, rt, at):
                        out.fail("interfacial_composition_batch_dependent", "%s op %d (%s): x=%r T=%r g=%r: %r / %r inside an array of %d, %r / %r alone on a cache-free object" % (case["system"], k, ph, x[0].tolist(), T[0], g0[i],
                                 ca[i].tolist() if ca.shape[0] == len(g0) else ca.tolist(), cb[i].tolist() if cb.shape[0] == len(g0) else None, len(g0), ra.tolist(), rb.tolist()))
                        break
            elif kind == "growth" and not cfg["binary"]:
                i = 0
                REF.clearCache()
                rdg, rxp = REF.getDrivingForce(x[i].copy(), float(T[i]), precPhase=ph, removeCache=True)
                sd = None
                if op.get("sd") and rdg is not None and np.isfinite(rdg) and rxp is not None and np.all(np.isfinite(np.atleast_1d(rxp))):
                    # the way the precipitation model asks: with the nucleus composition of the driving-force calculation as search
                    # direction, also for a dissolving precipitate (matrix outside the two-phase field, driving force negative)
                    sd = np.atleast_1d(np.asarray(rxp, dtype=float)).copy()
                    out.label("growth_with_search_direction" + ("_undersaturated" if float(rdg) <= 0 else ""))
                elif rdg is None or not np.isfinite(rdg) or float(rdg) <= 0:
                    out.label("growth_outside_two_phase")
                    continue
                kwsd = {} if sd is None else {"searchDir": sd.copy()}
                R = np.array(op["R"], dtype=float)
                gE = np.array(op["gE"], dtype=float)
                R0, g0 = R.copy(), gE.copy()
                xi = x[i].copy()
                a = W.getGrowthAndInterfacialComposition(xi, float(T[i]), float(rdg), R, gE, precPhase=ph, removeCache=rc, **kwsd)
                if sd is not None and kwsd["searchDir"].tobytes() != sd.tobytes():
                    out.fail("argument_modified", "op %d getGrowthAndInterfacialComposition modified its search direction" % k)
                if R.tobytes() != R0.tobytes() or gE.tobytes() != g0.tobytes() or xi.tobytes() != x[i].tobytes():
                    out.fail("argument_modified", "op %d getGrowthAndInterfacialComposition modified its arguments" % k)
                REF.clearCache()
                b = REF.getGrowthAndInterfacialComposition(x[i].copy(), float(T[i]), float(rdg), R0.copy(), g0.copy(), precPhase=ph, removeCache=True, **({} if sd is None else {"searchDir": sd.copy()}))
                if (a is None) != (b is None) and sd is not None and not ordered:
                    out.fail("growth_history_dependent", "%s op %d (%s, removeCache=%s, search direction %r): %s with history, %s cache-free" % (case["system"], k, ph, rc, sd.tolist(), "no result" if a is None else "a result", "no result" if b is None else "a result"), removeCache=bool(rc))
                if a is None or b is None:
                    out.label("growth_none")
                    continue
                ga, gb = np.atleast_1d(a[0]), np.atleast_1d(b[0])
                if not _same(ga, gb, 2e-3 if not ordered else 5e-2, 1e-6 * float(np.max(np.abs(gb))) + 1e-300):
                    out.fail("growth_history_dependent", "%s op %d (%s, removeCache=%s): growth rates %r with history vs %r cache-free" % (case["system"], k, ph, rc, ga[:3].tolist(), gb[:3].tolist()), removeCache=bool(rc))
                for j, nm in ((3, "matrix tie-line end"), (4, "precipitate tie-line end")):
                    if not _same(a[j], b[j], 1e-4 if not ordered else 2e-2, 1e-5 if not ordered else 2e-3):
                        out.fail("tieline_history_dependent", "%s op %d (%s): %s %r vs %r" % (case["system"], k, ph, nm, np.asarray(a[j]).tolist(), np.asarray(b[j]).tolist()), removeCache=bool(rc))
                out.label("growth_compared")
            elif kind in ("D", "Dt"):
                fn = (lambda o, xi, Ti, r_: o.getInterdiffusivity(xi, Ti, removeCache=r_)) if kind == "D" else (lambda o, xi, Ti, r_: o.getTracerDiffusivity(xi, Ti, removeCache=r_))
                a = np.asarray(fn(W, xarg, Targ, rc), dtype=float)
                a2 = np.asarray(fn(W, xarg, Targ, rc), dtype=float)
                if not unchanged():
                    out.fail("argument_modified", "op %d diffusivity query modified its arguments" % k)
                if not _same(a, a2, 1e-6, 1e-6 * float(np.max(np.abs(a)))):
                    out.fail("repeat_differs", "op %d: repeating the diffusivity query changes the answer" % k)
                for i in range(n):
                    r = np.asarray(ref_scalar(i, lambda o, xi, Ti: fn(o, xi, Ti, True)), dtype=float)
                    ai = a[i] if n > 1 else a
                    # interdiffusivity: tiny off-diagonal terms carry the solver noise of the large ones; tracer diffusivities are judged entry by entry
                    if not _same(ai, r, 1e-6, 1e-6 * float(np.max(np.abs(r))) if kind == "D" else 0.0):
                        out.fail("diffusivity_history_dependent", "%s op %d (%s, removeCache=%s, element %d of %d): %r vs cache-free %r" % (case["system"], k, kind, rc, i, n, np.asarray(ai).tolist(), r.tolist()), removeCache=bool(rc))
            out.label("op_" + kind)
    finally:
        if dens0 is not None:
            W.setDFSamplingDensity(dens0[0])
            REF.setDFSamplingDensity(dens0[1])
            W.clearCache()
            REF.clearCache()
        sys.stdout = so
    out.label(case["system"])
    out.nt(nq >= 2 and (jumped or any(len(o.get("T", [])) >= 2 for o in case["ops"]) or any(o["kind"] == "clear" for o in case["ops"])))
    return out


@st.composite
def _seq(draw):
    name = draw(st.sampled_from(["alzr", "alzr", "almgsi", "almgsi", "nicral"]))
    cfg = SYS[name]
    base = [draw(st.floats(lo, hi)) for lo, hi in cfg["x"]]
    T0 = draw(st.floats(*cfg["T"]))
    ops = []
    for _ in range(draw(st.integers(2, 8))):
        kind = draw(st.sampled_from(["df", "df", "ic" if cfg["binary"] else "growth", "ic" if cfg["binary"] else "icm", "D", "Dt", "clear"]))
        if kind == "clear":
            ops.append({"kind": "clear"})
            continue
        n = draw(st.sampled_from([1, 1, 2, 3]))
        if kind in ("ic", "growth", "icm"):
            n = 1
        jump = draw(st.sampled_from([0.0, 0.0, 1.0, 25.0, -60.0, 150.0, -200.0, 0.004, -0.007, 0.02]))      # incl. changes far below any "same state" tolerance a cache might use
        Ts = [float(np.clip(T0 + jump + 7.0 * i, cfg["T"][0], cfg["T"][1])) for i in range(n)]
        xs = [[float(np.clip(b * draw(st.sampled_from([1.0, 1.0, 0.7, 1.3, 0.4, 1.0 + 4e-6, 1.0 - 8e-6])), lo, hi)) for b, (lo, hi) in zip(base, cfg["x"])] for _ in range(n)]
        op = {"kind": kind, "x": xs, "T": Ts, "phase": draw(st.integers(0, 4)), "removeCache": draw(st.booleans())}
        if kind in ("ic", "icm"):
            op["g"] = sorted(10 ** draw(st.floats(0, 4.3)) for _ in range(draw(st.integers(1, 5))))
            if kind == "icm" and draw(st.integers(0, 2)) == 2:
                op["g_int"] = True
                op["T"] = [float(np.floor(op["T"][0]) + draw(st.sampled_from([0.15, 0.5, 0.85])))]
            if kind == "ic" and draw(st.booleans()):
                Tset = [float(np.clip(T0 + d, cfg["T"][0], cfg["T"][1])) for d in (0.0, draw(st.sampled_from([50.0, -40.0, 7.0])), draw(st.sampled_from([-15.0, 90.0])))]
                pat = draw(st.sampled_from([[0, 1, 0], [0, 0, 1], [1, 0], [0, 1, 2, 0], [2, 1, 0], [0, 1], [0, 1, 1, 0]]))
                op["Tpairs"] = [[Tset[j], 10 ** draw(st.floats(0, 4.0))] for j in pat]
        if kind == "growth":
            if draw(st.booleans()):
                op["sd"] = True
                if draw(st.booleans()) and "T_hot" in cfg:      # above the solvus: the precipitate dissolves, the tie line is searched along the direction
                    op["T"] = [draw(st.floats(*cfg["T_hot"]))]
            m = draw(st.integers(1, 4))
            op["R"] = sorted(10 ** draw(st.floats(-9.3, -7.5)) for _ in range(m))
            op["gE"] = [2 * 0.1 * 1e-5 / r for r in op["R"]]
        ops.append(op)
        if kind == "growth" and draw(st.booleans()):
            # a second growth query for the same phase at a neighbouring state, both keeping their caches: the curvature factors and
            # the tie line must be those of the new state
            op["removeCache"] = False
            f = draw(st.sampled_from([0.8, 1.2, 1.0]))
            op2 = dict(op, x=[[float(np.clip(v * f, lo, hi)) for v, (lo, hi) in zip(op["x"][0], cfg["x"])]], T=[float(np.clip(op["T"][0] + draw(st.sampled_from([0.0, 25.0, -25.0])), cfg["T"][0], max(cfg["T"][1], op["T"][0])))], removeCache=draw(st.booleans()))
            ops.append(op2)
        if kind in ("D", "Dt") and draw(st.integers(0, 1)) == 1:
            # near-repeat: the same query (or the other diffusivity) at a state that differs by far less than any
            # "same state" tolerance, right after a query that kept its cache
            op["removeCache"] = False
            d = draw(st.sampled_from([0.004, -0.007, 0.02]))
            # (the cache holds the state evaluated last: the last element of an array query)
            op2 = {"kind": draw(st.sampled_from(["D", "Dt", "Dt"])), "x": [list(xs[-1])], "T": [Ts[-1] + d], "phase": op["phase"], "removeCache": draw(st.booleans())}
            if draw(st.booleans()):
                op2["T"] = [Ts[-1]]
                op2["x"] = [[float(np.clip(v * (1 + 6e-6), lo, hi)) for v, (lo, hi) in zip(xs[-1], cfg["x"])]]
            ops.append(op2)
        if draw(st.booleans()):          # repeat of an earlier query later in the sequence
            ops.append(dict(op))
    case = {"system": name, "ops": ops}
    if not cfg["binary"] and draw(st.integers(0, 2)) == 2:
        case["shared_buffer"] = True
    return case


GEN = {
    # GeneralThermodynamics objects with two phases that both carry mobility data: the `phase` keyword of the diffusivity queries
    "fecrni": {"phases": ["FCC_A1", "BCC_A2"], "x": [(0.1, 0.3), (0.05, 0.3)], "T": (1150.0, 1500.0)},
    "fecrni_bccfirst": {"phases": ["BCC_A2", "FCC_A1"], "x": [(0.1, 0.3), (0.05, 0.3)], "T": (1150.0, 1500.0)},
    "fecrni_rev": {"phases": ["FCC_A1", "BCC_A2"], "x": [(0.05, 0.3), (0.1, 0.3)], "T": (1150.0, 1500.0)},       # elements FE, NI, CR
}


def check_phase_sequence(case):
    """Diffusivity queries with the `phase` keyword (default None = first listed phase) and removeCache on/off, on an object
    with two mobility phases: every answer equals that of a cache-free object asked the same single question."""
    out = Out()
    cfg = GEN[case["system"]]
    W = realdb.get(case["system"])
    REF = realdb.get(case["system"] + "#ref")
    so = sys.stdout
    sys.stdout = io.StringIO()
    kept_other = False
    judged_after = False
    try:
        W.clearCache()
        for k, op in enumerate(case["ops"]):
            if op["kind"] == "clear":
                W.clearCache()
                kept_other = False
                continue
            x = np.array(op["x"], dtype=float)
            T = np.array(op["T"], dtype=float)
            n = len(T)
            ph = op["phase"]
            rc = op["removeCache"]
            xarg = x.copy() if n > 1 else x[0].copy()
            Targ = T.copy() if n > 1 else float(T[0])
            keep = [np.array(xarg).copy(), np.array(Targ).copy()]
            name = "getInterdiffusivity" if op["kind"] == "D" else "getTracerDiffusivity"
            kw = {} if ph is None else {"phase": ph}
            a = np.asarray(getattr(W, name)(xarg, Targ, removeCache=rc, **kw), dtype=float)
            if not (np.array_equal(np.array(xarg), keep[0]) and np.array_equal(np.array(Targ), keep[1])):
                out.fail("argument_modified", "op %d: %s modified its arguments" % (k, name))
            for i in range(n):
                REF.clearCache()
                r = np.asarray(getattr(REF, name)(x[i].copy(), float(T[i]), removeCache=True, **kw), dtype=float)
                ai = a[i] if n > 1 else a
                if not _same(ai, r, 1e-6, 1e-6 * float(np.max(np.abs(r))) if op["kind"] == "D" else 0.0):
                    out.fail("diffusivity_history_dependent", "%s op %d (%s, phase=%r, removeCache=%s, element %d of %d) after %s: %r vs cache-free %r"
                             % (case["system"], k, name, ph, rc, i, n, [(o["kind"], o.get("phase"), o.get("removeCache")) for o in case["ops"][:k]], np.asarray(ai).tolist(), r.tolist()), removeCache=bool(rc))
            if kept_other:
                judged_after = True
            if not rc and ph is not None and ph != cfg["phases"][0]:
                kept_other = True
            out.label("op_%s_%s" % (op["kind"], "default" if ph is None else "matrix" if ph == cfg["phases"][0] else "other"))
    finally:
        sys.stdout = so
    out.label(case["system"])
    out.nt(judged_after)
    return out


@st.composite
def _phase_seq(draw):
    name = draw(st.sampled_from(sorted(GEN)))
    cfg = GEN[name]
    base = [draw(st.floats(lo, hi)) for lo, hi in cfg["x"]]
    T0 = draw(st.floats(*cfg["T"]))
    ops = []
    for _ in range(draw(st.integers(3, 7))):
        kind = draw(st.sampled_from(["D", "D", "D", "Dt", "Dt", "Dt", "clear"]))
        if kind == "clear":
            ops.append({"kind": "clear"})
            continue
        n = draw(st.sampled_from([1, 1, 1, 2, 3]))
        jump = draw(st.sampled_from([0.0, 0.0, 0.0, 0.004, 1.0, 40.0, -80.0]))
        Ts = [float(np.clip(T0 + jump + 5.0 * i, cfg["T"][0], cfg["T"][1])) for i in range(n)]
        xs = [[float(np.clip(b * draw(st.sampled_from([1.0, 1.0, 1.0, 0.8, 1.2, 1.0 + 5e-6])), lo, hi)) for b, (lo, hi) in zip(base, cfg["x"])] for _ in range(n)]
        ops.append({"kind": kind, "x": xs, "T": Ts, "phase": draw(st.sampled_from([None, None, cfg["phases"][0], cfg["phases"][1], cfg["phases"][1]])), "removeCache": draw(st.sampled_from([False, False, True]))})
    return {"system": name, "ops": ops}


def pred_gamma_prime_warm(case, v):
    """Order/disorder precipitate (Ni-Cr-Al gamma prime), tangent driving force with the cached composition sets retained:
    after a composition/temperature jump the warm-started solver can land on a different branch than a cold start."""
    d = v.get("data", {})
    return case.get("system") == "nicral" and bool(case.get("gp_retained")) and d.get("removeCache") is False and bool(d.get("warm"))


PREDICATES_EXTRA = {"gamma_prime_warm_start": pred_gamma_prime_warm}


@st.composite
def _gp_seq(draw):
    cfg = SYS["nicral"]
    ops = []
    for _ in range(draw(st.integers(2, 6))):
        ops.append({"kind": "df", "x": [[draw(st.floats(*cfg["x"][0])), draw(st.floats(*cfg["x"][1]))]], "T": [draw(st.floats(*cfg["T"]))], "phase": 0, "removeCache": False})
    return {"system": "nicral", "gp_retained": True, "ops": ops}


@st.composite
def _gp_sampling_seq(draw):
    cfg = SYS["nicral_sampling"]
    ops = []
    for _ in range(draw(st.integers(2, 5))):
        ops.append({"kind": "df", "x": [[draw(st.floats(*cfg["x"][0])), draw(st.floats(*cfg["x"][1]))]], "T": [draw(st.one_of(st.floats(*cfg["T"]), st.sampled_from([1000.0, 1073.15, 1273.15, 1340.0])))], "phase": 0,
                    "removeCache": draw(st.sampled_from([False, False, False, True]))})
    if draw(st.booleans()):
        # the density lowered (or raised) between two retained-cache queries at the same temperature
        k = draw(st.integers(0, len(ops) - 1))
        again = dict(ops[k], x=[[draw(st.floats(*cfg["x"][0])), draw(st.floats(*cfg["x"][1]))]], removeCache=False)
        ops[k] = dict(ops[k], removeCache=False)
        ops[k + 1:k + 1] = [{"kind": "density", "value": draw(st.sampled_from([100, 100, 200, 3000]))}, again]
    return {"system": "nicral_sampling", "retained_ok": True, "ops": ops}


def clauses():
    return [
        Clause("diffusivity_phase_sequences", _phase_seq, check_phase_sequence, quick=60, thorough=1500, shrink=False,
               rule="generator: 2-7 interdiffusivity / tracer-diffusivity queries (plus clearCache) on Fe-Cr-Ni objects with two mobility phases (fcc and bcc, either listed first, two element orders; the Ni-Cr-Al database has mobilities for fcc only): phase keyword absent / matrix / second phase, removeCache on/off, scalar or array arguments, repeated states and temperature changes 0.004-80 K; "
                    "oracle: every answer (and array element) equals that of a second object asked the same single question with its caches discarded; arguments unchanged; non-trivial: a query judged after a second-phase query that kept its cache"),
        Clause("gamma_prime_sampling_retained", _gp_sampling_seq, check_sequence, quick=40, thorough=400, shrink=False,
               rule="generator: 2-5 driving-force queries with the 'sampling' method on Ni-Cr-Al gamma prime at independent random compositions and temperatures 950-1350 K (two-phase and undersaturated), sample cache retained between them (3 in 4), one case in two with the sampling density changed between two retained-cache queries at the same temperature (on the object with history and on the reference alike); "
                    "oracle: each answer equals that of a cache-free object (5e-2 / 1.5 J/mol), repeats agree; non-trivial: >= 2 queries with a temperature jump"),
        Clause("gamma_prime_retained_cache", _gp_seq, check_sequence, quick=24, thorough=400, shrink=False,
               rule="generator: 2-6 tangent driving-force queries on Ni-Cr-Al gamma prime at independent random compositions/temperatures with the cached composition sets retained between them (region of open finding KF-C09-4: violations of the listed kind are counted as known, anything else is reported); non-trivial: as above"),
        Clause("query_sequences", _seq, check_sequence, quick=64, thorough=1500, shrink=False,
               rule="generator: 2-8 queries (plus repeats and clearCache) on one thermodynamics object per system {Al-Zr binary, Al-Mg-Si with five stoichiometric phases, Ni-Cr-Al gamma prime}: driving force, interfacial composition (binary and multicomponent) / growth+interfacial composition (multicomponent), interdiffusivity, tracer diffusivity; scalar or array arguments, removeCache on/off, temperature changes from 0.004 K to 200 K and composition changes from 4e-6 relative; "
                    "oracle: every answer (and every array element) equals the answer of a second object whose caches are discarded before the query, up to the documented 1 J/mol offset; an immediate repeat gives the same answer; ndarray arguments bit-identical; non-trivial: >= 2 queries with a temperature jump, an array argument or a cache clear. Driving-force queries on the order/disorder gamma prime system are made with removeCache=True only (open finding KF-C09-4)"),
    ]
