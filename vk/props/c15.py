"""C15 — precipitate shape factors match the geometry they describe."""
import math

import numpy as np
from hypothesis import strategies as st

from ..core import Clause, Out

LEVEL = "exploration"
ASSUMPTIONS = [
    "spheroid surface area and electrostatic capacitance are computed by scipy.integrate.quad (epsrel 1e-11) from their defining integrals, compared at rtol 1e-8",
    "for the cuboidal shape 'unit volume' means the three edge lengths multiply to 1 (the class documents them as edge lengths); for spheroids (4 pi/3) a b c = 1",
    "monotonicity and >=1 are judged with a 1e-7 relative slack (the closed forms cancel catastrophically as ar -> 1: measured 1.3e-9 at ar = 1+2e-16)",
    "'continuous at aspect ratio 1' is judged as |f(1+1e-7) - f(1)| <= 1e-3 (the cuboidal kinetic factor at 1 is documented as the value at 1.0001)",
]

SHAPES = ["sphere", "needle", "plate", "cubic"]


def _desc(shape):
    from kawin.precipitation.parameters import ShapeFactors as SF
    return {"sphere": SF.SphereDescription, "needle": SF.NeedleDescription, "plate": SF.PlateDescription, "cubic": SF.CuboidalDescription}[shape]()


def spheroid_area(a_eq, c_pol):
    """Surface area of a spheroid with equatorial radius a_eq and polar half-length c_pol."""
    from scipy.integrate import quad
    f = lambda th: a_eq * math.sin(th) * math.sqrt(a_eq ** 2 * math.cos(th) ** 2 + c_pol ** 2 * math.sin(th) ** 2)
    v, err = quad(f, 0.0, math.pi, epsrel=1e-11, epsabs=0, limit=400)
    return 2 * math.pi * v


def ellipsoid_capacitance(a, b, c):
    from scipy.integrate import quad
    s = (a * b * c) ** (1 / 3)
    # substitute u = s^2 * t/(1-t) to map [0, inf) -> [0, 1)
    def f(t):
        u = s * s * t / (1 - t)
        du = s * s / (1 - t) ** 2
        return du / math.sqrt((a * a + u) * (b * b + u) * (c * c + u))
    v, err = quad(f, 0.0, 1.0, epsrel=1e-11, epsabs=0, limit=400)
    return 2.0 / v


def check_geometry(case):
    out = Out()
    shape, ar = case["shape"], case["ar"]
    d = _desc(shape)
    radii = np.array(d.normalRadii(ar), dtype=float)
    out.label(shape)
    if radii.shape != (3,):
        out.fail("radii_shape", "normalRadii(%r) has shape %r" % (ar, radii.shape))
        return out
    vol = float(np.prod(radii)) * (1.0 if shape == "cubic" else 4 * math.pi / 3)
    if not math.isclose(vol, 1.0, rel_tol=1e-10):
        out.fail("radii_volume", "%s ar=%r: axes %r give volume %r, expected 1" % (shape, ar, radii.tolist(), vol))
    want = 1.0 if shape == "sphere" else ar
    if not math.isclose(float(radii.max() / radii.min()), want, rel_tol=1e-10):
        out.fail("radii_aspect", "%s ar=%r: axes %r have ratio %r" % (shape, ar, radii.tolist(), float(radii.max() / radii.min())))
    th, kin, eq = float(d.thermoFactor(ar)), float(d.kineticFactor(ar)), float(d.eqRadiusFactor(ar))
    if shape in ("needle", "plate"):
        a, b, c = sorted(radii.tolist())
        if shape == "needle":
            a_eq, c_pol = a, c          # two short axes, one long
        else:
            a_eq, c_pol = c, a          # two long axes, one short
        r_eq = (a_eq * a_eq * c_pol) ** (1 / 3)
        area_ratio = spheroid_area(a_eq, c_pol) / (4 * math.pi * r_eq ** 2)
        cap_ratio = ellipsoid_capacitance(a_eq, a_eq, c_pol) / r_eq
        if ar > 1 and not math.isclose(th, area_ratio, rel_tol=1e-8):
            out.fail("thermo_factor_area", "%s ar=%r: thermodynamic factor %r, surface-area ratio by quadrature %r" % (shape, ar, th, area_ratio))
        if ar > 1 + 1e-6 and not math.isclose(kin, cap_ratio, rel_tol=1e-8 if ar > 1.001 else 1e-5):
            out.fail("kinetic_factor_capacitance", "%s ar=%r: kinetic factor %r, capacitance ratio by quadrature %r" % (shape, ar, kin, cap_ratio))
        # equivalent radius factor: sphere of the same volume as the spheroid with short axis 1
        vol_short1 = (ar if shape == "needle" else ar * ar)
        if not math.isclose(eq, vol_short1 ** (1 / 3), rel_tol=1e-12):
            out.fail("eq_radius_factor", "%s ar=%r: equivalent radius factor %r, expected %r" % (shape, ar, eq, vol_short1 ** (1 / 3)))
        # monotone in the aspect ratio
        ar2 = ar * case["step"]
        for name, fn in (("thermoFactor", d.thermoFactor), ("kineticFactor", d.kineticFactor), ("eqRadiusFactor", d.eqRadiusFactor)):
            f1, f2 = float(fn(ar)), float(fn(ar2))
            if f2 < f1 - 1e-7 * abs(f1):
                out.fail("not_monotone", "%s %s decreases from %r at ar=%r to %r at ar=%r" % (shape, name, f1, ar, f2, ar2))
            if f1 < 1 - 1e-7:
                out.fail("factor_below_one", "%s %s(%r) = %r < 1" % (shape, name, ar, f1))
    if shape == "sphere" and not (th == 1 and kin == 1 and eq == 1):
        out.fail("sphere_factor", "sphere factors are %r %r %r, expected 1" % (th, kin, eq))
    out.nt(ar > 1.001 and shape != "sphere")
    return out


def check_at_one(case):
    """Value at 1, continuity at 1, inputs below 1, scalar/array agreement, caller's array untouched."""
    out = Out()
    shape = case["shape"]
    d = _desc(shape)
    out.label(shape)
    eps = 1e-7
    for name in ("thermoFactor", "kineticFactor", "eqRadiusFactor"):
        fn = getattr(d, name)
        f1, f1e = float(fn(1.0)), float(fn(1.0 + eps))
        if abs(f1e - f1) > 1e-3:
            out.fail("discontinuous_at_1", "%s %s jumps at aspect ratio 1: f(1)=%r, f(1+1e-7)=%r" % (shape, name, f1, f1e), fn=name)
        if shape in ("needle", "plate", "sphere") and not math.isclose(f1, 1.0, rel_tol=1e-12):
            out.fail("not_one_at_1", "%s %s(1) = %r" % (shape, name, f1))
        fint = float(fn(1))
        if fint != f1:
            out.fail("int_vs_float", "%s %s(1)=%r differs from %s(1.0)=%r" % (shape, name, fint, name, f1))
    # arrays: element-wise agreement, values below 1, caller's array untouched
    vals = case["arr"]
    for kind in ("float_array", "int_array", "list"):
        if kind == "int_array":
            arr = np.array([int(round(v)) for v in vals], dtype=np.int64)
        elif kind == "float_array":
            arr = np.array(vals, dtype=float)
        else:
            arr = list(vals)
        before = np.array(arr).copy()
        for name in ("thermoFactor", "kineticFactor", "eqRadiusFactor", "normalRadii"):
            fn = getattr(d, name)
            res = np.array(fn(arr), dtype=float)
            after = np.array(arr)
            if after.tobytes() != before.tobytes() or after.dtype != before.dtype:
                out.fail("caller_array_modified", "%s %s modified the caller's %s %r -> %r" % (shape, name, kind, before.tolist(), after.tolist()), fn=name)
                arr = before.copy() if kind != "list" else list(before.tolist())
            elems = np.atleast_1d(before)
            res2 = res.reshape((len(elems),) + ((3,) if name == "normalRadii" else ())) if res.size == len(elems) * (3 if name == "normalRadii" else 1) else None
            if res2 is None:
                out.fail("array_shape", "%s %s(%s of %d) returned shape %r" % (shape, name, kind, len(elems), res.shape))
                continue
            for i, v in enumerate(elems):
                s = np.array(fn(max(float(v), 1.0)), dtype=float)
                if not np.allclose(res2[i], s, rtol=1e-12, atol=0):
                    out.fail("scalar_vs_array", "%s %s: element %d (ar=%r) of the %s call gives %r, scalar call at max(ar,1) gives %r" % (shape, name, i, float(v), kind, res2[i].tolist(), s.tolist()), fn=name)
                    break
    out.nt(any(v < 1 for v in vals) and shape != "sphere")
    if any(v < 1 for v in vals):
        out.label("has_below_one")
    return out


def _ar_fn(spec):
    kind = spec[0]
    if kind == "const":
        return spec[1]
    if kind == "linear":
        a0, slope, R0 = spec[1:]
        return lambda R: a0 + slope * np.asarray(R) / R0
    if kind == "power":
        a0, ex, R0 = spec[1:]
        return lambda R: np.maximum(1.0, a0 * (np.asarray(R) / R0) ** ex)
    if kind == "sat":
        amax, R0 = spec[1:]
        return lambda R: 1 + (amax - 1) * np.asarray(R) / (np.asarray(R) + R0)
    if kind == "ramp":          # spherical while small: exactly 1 up to R0, then growing (the root may sit exactly on the lower end of the search interval)
        R0 = spec[1]
        return lambda R: np.maximum(1.0, np.asarray(R) / R0)
    if kind == "below1":        # not clamped by the function: values below 1 are documented to be treated as 1
        a0, slope, R0 = spec[1:]
        return lambda R: a0 + slope * np.asarray(R) / R0
    raise ValueError(kind)


def check_rcrit(case):
    from kawin.precipitation.parameters.ShapeFactors import ShapeFactor
    out = Out()
    shape = case["shape"]
    arf = _ar_fn(case["arfn"])
    sf = ShapeFactor(shape, arf)
    Rs, Rmax = case["Rs"], case["Rs"] * case["rmax_factor"]
    out.label(shape, "arfn_" + case["arfn"][0])
    res = lambda R: R / (Rs * float(sf.thermoFactor(R))) - 1
    fmin, fmax = res(Rs), res(Rmax)
    R = float(sf.findRcrit(Rs, Rmax))
    if case["arfn"][0] == "const":
        if abs(res(R)) > 1e-9:
            out.fail("rcrit_scalar", "%s constant aspect ratio: findRcrit returned %r, residual %r" % (shape, R, res(R)))
        out.nt(shape != "sphere" and case["arfn"][1] > 1.001)
        return out
    if fmin * fmax <= 0:       # closed interval: a residual of exactly 0 at an end point is a root, too
        out.label("bracketed" if fmin * fmax < 0 else "root_on_interval_end")
        out.nt(shape != "sphere")
        if not (abs(res(R)) <= sf.tol * (1 + 1e-9)):
            out.fail("rcrit_not_root", "%s %r: root bracketed on [%r,%r] (residuals %r,%r) but findRcrit returned %r with residual %r > tol %r" % (shape, case["arfn"], Rs, Rmax, fmin, fmax, R, res(R), sf.tol))
        if not (Rs * (1 - 1e-12) <= R <= Rmax * (1 + 1e-12)):
            out.fail("rcrit_outside_bracket", "findRcrit returned %r outside [%r, %r]" % (R, Rs, Rmax))
    else:
        out.label("not_bracketed")
    return out


def check_setter_history(case):
    """One reused ShapeFactor driven through a sequence of shape / aspect-ratio settings; after every setting each
    factor at each query radius must be the description's factor at the aspect ratio that was set last, and
    findRcrit must solve R = R_sphere * factor(aspect(R)) for that setting."""
    from kawin.precipitation.parameters.ShapeFactors import ShapeFactor
    out = Out()
    first = case["ops"][0]
    sf = ShapeFactor(first[1], _ar_fn(first[2]))
    kinds = []
    for i, op in enumerate(case["ops"]):
        shape, spec = op[1], op[2]
        arf = _ar_fn(spec)
        if i > 0:
            how = op[0]
            if how == "shape":
                sf.setPrecipitateShape(shape, arf)
            elif how == "named":
                {"needle": sf.setNeedleShape, "plate": sf.setPlateShape, "cubic": sf.setCuboidalShape}[shape](arf) if shape != "sphere" else sf.setSpherical()
                if shape == "sphere":
                    spec, arf = ["const", 1.0], 1.0
            elif how == "ar":
                shape = cur_shape
                sf.setAspectRatio(arf)
        cur_shape = shape
        kinds.append(spec[0])
        d = _desc(shape)
        arfun = (lambda R, a=arf: np.full(np.shape(R), float(a))) if spec[0] == "const" else arf
        R = np.array(case["R"], dtype=float)
        for Rq in (R, float(R[0])):
            ar = arfun(Rq)
            for name in ("thermoFactor", "kineticFactor", "eqRadiusFactor", "normalRadii"):
                want = np.asarray(getattr(d, name)(np.maximum(ar, 1.0)), dtype=float)
                got = np.asarray(getattr(sf, name)(Rq), dtype=float)
                if got.shape != want.shape or not np.allclose(got, want, rtol=1e-12, atol=0):
                    out.fail("stale_setting", "after setting %d (%s %s %r; history %r) %s(%r) = %r, the description gives %r at the aspect ratio set last"
                             % (i, op[0], shape, spec, kinds, name, np.asarray(Rq).tolist(), got.tolist(), want.tolist()), fn=name)
                    return out
        Rs, Rmax = case["Rs"], case["Rs"] * case["rmax_factor"]
        res = lambda r: r / (Rs * float(d.thermoFactor(max(float(arfun(r)), 1.0)))) - 1
        Rc = float(sf.findRcrit(Rs, Rmax))
        if spec[0] == "const":
            if abs(res(Rc)) > 1e-9:
                out.fail("rcrit_after_history", "after setting %d (constant aspect ratio %r on %s; history %r) findRcrit returned %r, residual %r" % (i, spec[1], shape, kinds, Rc, res(Rc)))
                return out
        elif res(Rs) * res(Rmax) < 0 and not abs(res(Rc)) <= sf.tol * (1 + 1e-9):
            out.fail("rcrit_after_history", "after setting %d (%r on %s; history %r) the root is bracketed but findRcrit returned %r with residual %r" % (i, spec, shape, kinds, Rc, res(Rc)))
            return out
    changes = sum(1 for a, b in zip(kinds, kinds[1:]) if (a == "const") != (b == "const"))
    out.label("switches_%d" % min(changes, 3))
    if any(a != "const" and b == "const" for a, b in zip(kinds, kinds[1:])):
        out.label("callable_then_constant")
    out.nt(changes >= 1)
    return out


@st.composite
def _arspec(draw, R0):
    kind = draw(st.sampled_from(["const", "const", "linear", "power", "sat", "ramp", "below1"]))
    if kind == "ramp":
        return ["ramp", R0 * draw(st.sampled_from([0.3, 1.0, 1.0, 4.0, 30.0]))]
    if kind == "below1":
        return ["below1", draw(st.floats(0.2, 1.0)), draw(st.floats(0, 3)), R0]
    if kind == "const":
        return ["const", draw(st.one_of(st.just(1.0), st.floats(1, 50)))]
    if kind == "linear":
        return ["linear", draw(st.floats(1, 5)), draw(st.floats(0, 3)), R0]
    if kind == "power":
        return ["power", draw(st.floats(1, 5)), draw(st.floats(0, 1.5)), R0]
    return ["sat", draw(st.floats(1, 50)), R0]


@st.composite
def _history(draw):
    R0 = 10 ** draw(st.floats(-10, -8))
    n = draw(st.integers(2, 6))
    ops = [["shape", draw(st.sampled_from(SHAPES)), draw(_arspec(R0))]]
    for _ in range(n - 1):
        how = draw(st.sampled_from(["ar", "ar", "shape", "named"]))
        ops.append([how, draw(st.sampled_from(SHAPES)), draw(_arspec(R0))])
    R = draw(st.lists(st.floats(-10, -7).map(lambda e: 10 ** e), min_size=1, max_size=4))
    return {"ops": ops, "R": R, "Rs": 10 ** draw(st.floats(-10, -8)), "rmax_factor": 10 ** draw(st.floats(0.01, 3))}


@st.composite
def _geom(draw):
    ar = draw(st.one_of(st.floats(0, 2).map(lambda e: 10 ** e), st.sampled_from([1.0, 1.0 + 1e-9, 1.0 + 1e-6, 1.001, 2.0, 100.0]), st.floats(1, 1.1)))
    return {"shape": draw(st.sampled_from(SHAPES)), "ar": ar, "step": 1 + 10 ** draw(st.floats(-6, 0))}


@st.composite
def _atone(draw):
    arr = draw(st.lists(st.one_of(st.floats(0.0, 1.0), st.floats(1.0, 100.0), st.sampled_from([0.0, 0.5, 1.0, 2.0, 3.0])), min_size=1, max_size=6))
    return {"shape": draw(st.sampled_from(SHAPES)), "arr": arr}


@st.composite
def _rcrit(draw):
    kind = draw(st.sampled_from(["const", "linear", "power", "sat", "ramp", "below1"]))
    R0 = 10 ** draw(st.floats(-10, -8))
    if kind == "ramp":
        spec = ["ramp", R0 * draw(st.sampled_from([0.3, 1.0, 1.0, 4.0, 30.0]))]
    elif kind == "below1":
        spec = ["below1", draw(st.floats(0.2, 1.0)), draw(st.floats(0, 3)), R0]
    elif kind == "const":
        spec = ["const", draw(st.one_of(st.just(1.0), st.floats(1, 50)))]
    elif kind == "linear":
        spec = ["linear", draw(st.floats(1, 5)), draw(st.floats(0, 3)), R0]
    elif kind == "power":
        spec = ["power", draw(st.floats(1, 5)), draw(st.floats(0, 1.5)), R0]
    else:
        spec = ["sat", draw(st.floats(1, 50)), R0]
    return {"shape": draw(st.sampled_from(SHAPES)), "arfn": spec, "Rs": 10 ** draw(st.floats(-10, -8)), "rmax_factor": 10 ** draw(st.floats(0.01, 3))}


def clauses():
    return [
        Clause("geometry", _geom, check_geometry, quick=6000, thorough=300000,
               rule="generator: shape x aspect ratio log-uniform in [1,100] plus {1, 1+1e-9, 1+1e-6, 1.001, 2, 100}; semi-axes, factors vs quadrature (area, capacitance), monotonicity between ar and ar*(1+10^[-6,0]); non-trivial: non-spherical shape with aspect ratio > 1.001"),
        Clause("at_one", _atone, check_at_one, quick=3000, thorough=100000,
               rule="generator: shape x list of 1-6 aspect ratios incl. values below 1, passed as float array, int array and list; value/continuity at 1, scalar = array element, caller's array bit-identical; non-trivial: non-spherical shape and an entry below 1"),
        Clause("rcrit", _rcrit, check_rcrit, quick=4000, thorough=150000,
               rule="generator: shape x aspect-ratio function {constant, linear, power, saturating} of R x R_sphere 1e-10..1e-8 x Rmax/R_sphere 1..1000; non-trivial: non-spherical shape with a bracketed root (or constant aspect ratio > 1.001)"),
        Clause("setter_history", _history, check_setter_history, quick=3000, thorough=100000,
               rule="generator: one ShapeFactor object driven through 2-6 settings (setPrecipitateShape / setNeedleShape, setPlateShape, setCuboidalShape, setSpherical / setAspectRatio) mixing constant and radius-dependent aspect ratios; after every setting the factors at 1-4 radii (array and scalar call) equal the description's at the aspect ratio set last and findRcrit solves the equation for that setting; non-trivial: the history switches between a constant and a radius-dependent aspect ratio"),
    ]
