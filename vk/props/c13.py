"""C13 — temperature schedules are followed faithfully."""
import math

import numpy as np
from hypothesis import strategies as st

from ..core import Clause, Out
from .. import harness_kwn as H, scen

LEVEL = "exploration"
ASSUMPTIONS = [
    "'equivalent specifications' = the same schedule through different entry points (constructor object vs setter; break-point array vs a function implementing the same hour-based interpolation); a scalar and a constant array are not treated as equivalent (array input is documented as non-isothermal)",
    "toy binary thermodynamics: the solvus x_eq(T) is analytic and strictly monotone, so the temperature at which the recorded equilibrium composition was tabulated is obtained by inverting it",
    "paired toy runs are deterministic (pure-function backend), so pData is compared exactly",
]
R_GAS = 8.314462618
ATTRS = ["time", "temperature", "composition", "xEqAlpha", "xEqBeta", "drivingForce", "impingement", "Gcrit", "Rcrit", "nucRate", "precipitateDensity", "Rnuc", "Ravg", "ARavg", "volFrac", "fconc"]


def _table_T(xeq, ph):
    return ph["dH"] / (R_GAS * (ph["dS"] / R_GAS - math.log(xeq)))


def check_follow(sc):
    """(a) recorded temperature = schedule(time); (c) tabulated equilibrium composition not older than maxTempChange."""
    out = Out()
    res = H.run(sc)
    m = res["model"]
    pd = m.pData
    spec = sc["T"]
    maxdT = (sc.get("constraints") or {}).get("maxTempChange", 1)
    T = np.array(pd.temperature, dtype=float)
    # the schedule in force for a recorded row is the one of the solve call that recorded it (T_calls: schedules set between calls)
    rows = res["rows_after_call"]
    specs = [spec]
    for k in range(1, len(rows) - 1):
        nxt = (sc.get("T_calls") or [None] * k)[k - 1] if len(sc.get("T_calls") or []) >= k else None
        specs.append(nxt if nxt is not None else specs[-1])
    row_spec = []
    for i in range(len(pd.time)):
        k = 0
        while k + 1 < len(rows) - 1 and i >= rows[k + 1]:
            k += 1
        row_spec.append(specs[min(k, len(specs) - 1)])
    exp = np.array([H.schedule_value(sp, t) for sp, t in zip(row_spec, pd.time)], dtype=float)
    if sc.get("T_calls"):
        out.label("schedule_changed_between_solve_calls")
    bad = np.where(T != exp)[0]
    if len(bad):
        i = int(bad[0])
        out.fail("temperature_not_schedule", "step %d: recorded temperature %r, schedule(%r s) = %r" % (i, T[i], pd.time[i], exp[i]), step=i)
    stale = 0
    worst = 0.0
    for p, ph in enumerate(sc["phases"]):
        xe = np.array(pd.xEqAlpha[:, p, 0], dtype=float)
        for i in range(len(T)):
            if not (xe[i] > 0):
                continue
            Ttab = _table_T(xe[i], ph)
            dev = abs(Ttab - T[i])
            if dev > maxdT * (1 + 1e-9) + 1e-6:
                stale += 1
                if dev > worst:
                    worst = dev
                    where = (i, p, Ttab)
    if stale:
        i, p, Ttab = where
        out.fail("stale_lookup_table", "%d recorded steps use an equilibrium composition tabulated more than maxTempChange=%r K away from the current temperature; worst at step %d phase %d: table at %.3f K, current %.3f K" % (stale, maxdT, i, p, Ttab, T[i]), steps=stale, worst=worst)
    dTs = np.abs(np.diff(T))
    total = float(np.sum(dTs))
    slow = bool(np.any((dTs > 0) & (dTs < maxdT)))
    out.label("T_" + spec[0], sc["iterator"], "heating" if T[-1] > T[0] else "cooling" if T[-1] < T[0] else "level")
    if res["truncated"]:
        out.label("truncated")
    if slow:
        out.label("slow_steps")
    if np.any(dTs > maxdT):
        out.label("fast_steps")
    if sc.get("spike"):
        out.label("hold_spike_hold")
    out.nt(total > 3 * maxdT and slow and bool(np.any(pd.nucRate > 0)))
    return out


def _compare(out, a, b, what):
    pa, pb = a.pData, b.pData
    if len(pa.time) != len(pb.time):
        out.fail("paired_runs_differ", "%s: runs have %d and %d recorded steps" % (what, len(pa.time), len(pb.time)), attr="length")
        return
    for name in ATTRS:
        x, y = np.asarray(getattr(pa, name)), np.asarray(getattr(pb, name))
        if x.shape != y.shape or not np.array_equal(x, y, equal_nan=True):
            idx = np.argwhere(~((x == y) | (np.isnan(x) & np.isnan(y))))
            first = idx[0].tolist() if len(idx) else None
            out.fail("paired_runs_differ", "%s: %s differs first at index %r (%r vs %r)" % (what, name, first, x[tuple(idx[0])] if len(idx) else None, y[tuple(idx[0])] if len(idx) else None), attr=name)
            return


def check_entry(sc):
    """(b) constructor parameter object vs setter; break-point array vs equivalent function."""
    out = Out()
    r1 = H.run(sc, temperature_entry="setter")
    r2 = H.run(sc, temperature_entry="constructor")
    _compare(out, r1["model"], r2["model"], "setter vs constructor (%s)" % sc["T"][0])
    iso1 = r1["model"].temperatureParameters._isIsothermal
    iso2 = r2["model"].temperatureParameters._isIsothermal
    if iso1 != iso2:
        out.fail("isothermal_flag_differs", "the same %s schedule is treated as isothermal=%r through the setter and isothermal=%r through the constructor" % (sc["T"][0], iso1, iso2))
    if sc["T"][0] in ("array", "func"):
        sc2 = dict(sc)
        sc2["T"] = ["func" if sc["T"][0] == "array" else "array", sc["T"][1], sc["T"][2]]
        r3 = H.run(sc2, temperature_entry="setter")
        _compare(out, r1["model"], r3["model"], "break-point array vs equivalent function")
    if sc.get("T_prior"):
        # the same final schedule set after other schedules had been set on the same model
        r4 = H.run(sc, temperature_entry="history")
        what = "set after %s (%s)" % (" then ".join("%s via %s" % (sp[0], how) for how, sp in sc["T_prior"]), sc["T"][0])
        _compare(out, r1["model"], r4["model"], "fresh model vs " + what)
        iso4 = r4["model"].temperatureParameters._isIsothermal
        if iso1 != iso4:
            out.fail("isothermal_flag_differs", "the %s schedule is treated as isothermal=%r on a fresh model and isothermal=%r when %s" % (sc["T"][0], iso1, iso4, what))
        out.label("after_prior_schedule")
    # the typed setters of the parameter object (setIsothermalTemperature / setTemperatureArray / setTemperatureFunction), called on an
    # empty object handed to the constructor, and on the model's own object after whatever schedules were set before
    for entry, what in (("typed_ctor", "typed setter on an empty parameter object given to the constructor"), ("typed", "typed setter on the model's parameter object")):
        r5 = H.run(sc, temperature_entry=entry)
        _compare(out, r1["model"], r5["model"], "model.setTemperature vs %s (%s)" % (what, sc["T"][0]))
        iso5 = r5["model"].temperatureParameters._isIsothermal
        if iso1 != iso5:
            out.fail("isothermal_flag_differs", "the %s schedule is treated as isothermal=%r through model.setTemperature and isothermal=%r through the %s" % (sc["T"][0], iso1, iso5, what))
    # the schedule handed to the setter after the model had already been set up under a schedule of the other kind with the same starting
    # temperature (constant for a profile, a profile for a constant): nothing has been solved yet, so the run is that of the final schedule
    T_start = float(H.schedule_value(sc["T"], 0.0))
    sc0 = {k: v for k, v in sc.items() if k != "T_prior"}
    total_h = sum(sc["durations"]) / 3600
    sc0["T"] = ["const", T_start] if sc["T"][0] != "const" else ["array", [0.0, total_h], [T_start, T_start + 25.0]]
    m6, th6 = H.build_model(sc0)
    m6.setup()
    m6.setTemperature(*H.make_temperature(sc["T"]))
    r6 = H.run(sc, model=m6, therm=th6)
    _compare(out, r1["model"], r6["model"], "schedule set before setup() vs set after setup() under a %s schedule (%s)" % (sc0["T"][0], sc["T"][0]))
    iso6 = r6["model"].temperatureParameters._isIsothermal
    if iso1 != iso6:
        out.fail("isothermal_flag_differs", "the %s schedule is treated as isothermal=%r when set before setup() and isothermal=%r when set after it" % (sc["T"][0], iso1, iso6))
    pd = r1["model"].pData
    out.label("T_" + sc["T"][0], sc["iterator"])
    out.nt((sc["T"][0] != "const" or bool(sc.get("T_prior"))) and bool(np.any(pd.nucRate > 0)) and len(pd.time) > 10)
    return out


@st.composite
def _ramp_scenario(draw, cap=300):
    sc = draw(scen.toy_binary_scenario(cap=cap, max_phases=1, allow_profile=False, sites=["bulk", "dislocations"], allow_shapes=False, undersat=False))
    T0 = sc["T"][1]
    total = sum(sc["durations"])
    n = draw(st.integers(2, 5))
    hrs = [0.0]
    for _ in range(n - 1):
        hrs.append(hrs[-1] + total / 3600 * draw(st.floats(0.05, 0.6)))
    Ts = [T0]
    for _ in range(n - 1):
        kind = draw(st.sampled_from(["heat", "cool", "hold", "heat", "cool"]))
        d = draw(st.floats(2.0, 120.0)) * draw(st.sampled_from([1.0, 1.0, 0.1]))
        Ts.append(float(np.clip(Ts[-1] + (d if kind == "heat" else -d if kind == "cool" else 0.0), 350.0, 1300.0)))
    if draw(st.integers(0, 3)) == 3:
        # hold - spike - hold: a short excursion (comparable to or shorter than a time step) that returns to bit-equal the hold
        # temperature, so that a step can start and end at the same temperature while its intermediate stages do not
        w = total / 3600 * 10 ** draw(st.floats(-3.0, -1.3))
        t1 = total / 3600 * draw(st.floats(0.2, 0.8))
        dT = draw(st.floats(3.0, 60.0)) * draw(st.sampled_from([1.0, -1.0]))
        hrs = [0.0, t1, t1 + w / 2, t1 + w, total / 3600]
        Ts = [T0, T0, float(np.clip(T0 + dT, 350.0, 1300.0)), T0, T0]
        sc["spike"] = True
    sc["T"] = [draw(st.sampled_from(["array", "array", "func"])), hrs, Ts]
    if len(sc["durations"]) > 1 and draw(st.integers(0, 2)) == 0:
        # ageing steps done by hand: solve, hand a new constant temperature to the setter, solve again (the first step a hold or the profile above)
        if draw(st.booleans()):
            sc["T"] = ["const", T0]
        Tend = T0 if sc["T"][0] == "const" else Ts[-1]
        calls = []
        for _ in sc["durations"][1:]:
            Tend = float(np.clip(Tend + draw(st.floats(3.0, 80.0)) * draw(st.sampled_from([1.0, -1.0])), 350.0, 1300.0))
            calls.append(["const", Tend] if draw(st.integers(0, 3)) > 0 else None)
        sc["T_calls"] = calls
    c = dict(sc.get("constraints") or {})
    c["maxTempChange"] = draw(st.sampled_from([1.0, 1.0, 0.1, 0.5, 3.0, 10.0]))
    if draw(st.integers(0, 3)) == 3:
        c["maxNonIsothermalDT"] = draw(st.floats(0.1, 10.0))
    sc["constraints"] = c
    sc["pbm"]["bins"] = min(sc["pbm"]["bins"], 60)
    sc["pbm"]["minBins"] = min(sc["pbm"]["minBins"], 40)
    sc["pbm"]["maxBins"] = max(sc["pbm"]["minBins"] + 2, min(sc["pbm"]["maxBins"], 90))
    return sc


@st.composite
def _entry_scenario(draw):
    if draw(st.integers(0, 3)) == 0:
        sc = draw(scen.toy_binary_scenario(cap=150, max_phases=1, allow_profile=False, sites=["bulk"], allow_shapes=False, undersat=False))
    else:
        sc = draw(_ramp_scenario(cap=150))
    if draw(st.integers(0, 2)) > 0:
        T0 = sc["T"][1] if sc["T"][0] == "const" else sc["T"][2][0]
        total = sum(sc["durations"])
        prior = []
        for _ in range(draw(st.integers(1, 2))):
            kind = draw(st.sampled_from(["const", "array", "func"]))
            spec = ["const", T0 + draw(st.floats(-30, 30))] if kind == "const" else [kind, [0.0, total / 3600], [T0 + draw(st.floats(-30, 30)), T0 + draw(st.floats(-30, 30))]]
            prior.append([draw(st.sampled_from(["ctor", "setter"])) if not prior else "setter", spec])
        sc["T_prior"] = prior
    return sc


def clauses():
    cl = [
        Clause("follow", _ramp_scenario, check_follow, quick=130, thorough=3000, shrink=False,
               rule="generator: toy binary single-phase scenario with a 2-5 break-point schedule (heat/cool/hold segments of 0.2-120 K, as array or function), maxTempChange in {0.1,0.5,1,3,10}, optional maxNonIsothermalDT, both iterators, 1-3 solve calls (one multi-call case in three hands a new constant temperature to the setter between calls, the first step a hold or the profile), cap 300; "
                    "oracle: recorded T = schedule(t) exactly; tabulated equilibrium composition inverted through the analytic solvus lies within maxTempChange of the current temperature; non-trivial: total change > 3 maxTempChange, some step changing T by less than maxTempChange, nucleation rate > 0 somewhere"),
        Clause("entry", _entry_scenario, check_entry, quick=60, thorough=1200, shrink=False,
               rule="generator: the same scenarios; each run through the constructor parameter object and through the setter, and (for profiles) as array and as equivalent function; and (2 in 3) set after 1-2 other schedules (constant/array/function, the first possibly through the constructor) had been set on the same model; and through the typed setters of the parameter object (on an empty object given to the constructor; on the model's object after the earlier schedules); and handed to the setter after setup() had been called under a schedule of the other kind with the same starting temperature; pData compared exactly, same isothermal/non-isothermal treatment; non-trivial: non-constant schedule or a prior schedule, with nucleation and > 10 steps"),
    ]
    try:
        from . import c13_diff
        cl += c13_diff.clauses()
    except ImportError:
        pass
    return cl
