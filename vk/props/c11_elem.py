"""C11 element-order clauses on the shipped ternary databases."""
import io
import sys

import numpy as np
from hypothesis import strategies as st

from ..core import Clause, Out
from .. import realdb

PAIRS = {
    # name: (object A, object B with the two solutes swapped, precipitate phases, x ranges (order of A), T range, ordered?)
    "nicral": ("nicral:tangent", "nicral_rev:tangent", ["FCC_L12"], [(0.03, 0.12), (0.06, 0.14)], (950, 1250), True),     # A: [CR, AL]
    "almgsi": ("almgsi:tangent", "almgsi_rev", ["MGSI_B_P", "MG5SI6_B_DP", "B_PRIME_L", "U1_PHASE", "U2_PHASE"], [(0.002, 0.012), (0.002, 0.012)], (400, 560), False),
}
GPAIRS = {
    "nicral_gen": ("nicral_gen", "nicral_gen_rev", [(0.02, 0.35), (0.01, 0.14)], (1150, 1500)),
    "fecrni": ("fecrni", "fecrni_rev", [(0.05, 0.5), (0.02, 0.35)], (900, 1500)),
}


def _close(a, b, rtol, atol=0.0):
    a, b = np.asarray(a, dtype=float), np.asarray(b, dtype=float)
    return a.shape == b.shape and np.allclose(a, b, rtol=rtol, atol=atol, equal_nan=True)


def check_queries(case):
    out = Out()
    name = case["system"]
    A, B, precs, _, _, ordered = PAIRS[name]
    ta, tb = realdb.get(A), realdb.get(B)
    x = np.array(case["x"], dtype=float)
    xr = x[::-1].copy()
    T = case["T"]
    ph = precs[case["phase"] % len(precs)]
    so = sys.stdout
    sys.stdout = io.StringIO()
    try:
        ta.clearCache()
        tb.clearCache()
        method = case.get("method", "tangent")
        try:
            # the shared objects are built with the default method; the other three documented methods are selected through the setter
            ta.setDrivingForceMethod(method)
            tb.setDrivingForceMethod(method)
            dga, xpa = ta.getDrivingForce(x, T, precPhase=ph, removeCache=True)
            dgb, xpb = tb.getDrivingForce(xr, T, precPhase=ph, removeCache=True)
        finally:
            ta.setDrivingForceMethod("tangent")
            tb.setDrivingForceMethod("tangent")
        if dga is not None and dgb is not None and np.all(np.isfinite([dga, dgb])):
            # tangent on the order/disorder pair: each object converges its own ordered equilibrium (measured spread); the other
            # methods evaluate fixed point sets / one matrix equilibrium and agree to 1e-9 (measured 4e-9 relative at most)
            loose = ordered and method == "tangent"
            rt, at = (5e-2, 1.5) if loose else (1e-6, 1e-3)
            if not _close(dga, dgb, rt, at):
                out.fail("driving_force_order_dependent", "%s %s x=%r T=%r method %s: driving force %r with solutes listed one way, %r the other way" % (name, ph, x.tolist(), T, method, float(dga), float(dgb)))
            if xpa is not None and xpb is not None and not _close(np.atleast_1d(xpa)[::-1], np.atleast_1d(xpb), 0, 1e-2 if loose else 1e-6):
                out.fail("nucleus_composition_not_permuted", "%s %s x=%r T=%r method %s: precipitate composition %r vs %r (should be the reverse)" % (name, ph, x.tolist(), T, method, np.atleast_1d(xpa).tolist(), np.atleast_1d(xpb).tolist()))
            out.label("df_compared", "df_" + method)
        Da = np.array(ta.getInterdiffusivity(x, T, removeCache=True), dtype=float)
        Db = np.array(tb.getInterdiffusivity(xr, T, removeCache=True), dtype=float)
        if not _close(Da[::-1, ::-1], Db, 1e-6, 1e-9 * np.max(np.abs(Da))):
            out.fail("interdiffusivity_not_permuted", "%s x=%r T=%r: D = %r vs %r (should be rows and columns reversed)" % (name, x.tolist(), T, Da.tolist(), Db.tolist()))
        Ta = np.array(ta.getTracerDiffusivity(x, T, removeCache=True), dtype=float)
        Tb = np.array(tb.getTracerDiffusivity(xr, T, removeCache=True), dtype=float)
        if not _close(Ta[[0, 2, 1]], Tb, 1e-6):
            out.fail("tracer_not_permuted", "%s x=%r T=%r: tracer diffusivities %r vs %r" % (name, x.tolist(), T, Ta.tolist(), Tb.tolist()))
        if dga is not None and np.isfinite(dga) and float(dga) > 0:
            ca = ta.curvatureFactor(x, T, precPhase=ph, removeCache=True)
            cb = tb.curvatureFactor(xr, T, precPhase=ph, removeCache=True)
            if (ca is None) != (cb is None):
                out.label("curvature_one_sided_none")
            elif ca is not None:
                rt = 2e-2 if ordered else 1e-6
                bad = []
                if not _close(ca.mc, cb.mc, rt):
                    bad.append("mc %r vs %r" % (ca.mc, cb.mc))
                if not _close(np.asarray(ca.dc)[::-1], cb.dc, rt, 1e-9 * np.max(np.abs(ca.dc))):
                    bad.append("dc %r vs %r" % (np.asarray(ca.dc).tolist(), np.asarray(cb.dc).tolist()))
                if not _close(ca.beta, cb.beta, rt):
                    bad.append("beta %r vs %r" % (ca.beta, cb.beta))
                if not _close(np.asarray(ca.c_eq_alpha)[::-1], cb.c_eq_alpha, 0, 2e-3 if ordered else 1e-6) or not _close(np.asarray(ca.c_eq_beta)[::-1], cb.c_eq_beta, 0, 2e-3 if ordered else 1e-6):
                    bad.append("tie line %r/%r vs %r/%r" % (np.asarray(ca.c_eq_alpha).tolist(), np.asarray(ca.c_eq_beta).tolist(), np.asarray(cb.c_eq_alpha).tolist(), np.asarray(cb.c_eq_beta).tolist()))
                if not _close(np.asarray(ca.gba)[::-1, ::-1], cb.gba, rt, 1e-6 * max(1.0, float(np.max(np.abs(ca.gba))))):
                    bad.append("gba %r vs %r" % (np.asarray(ca.gba).tolist(), np.asarray(cb.gba).tolist()))
                if bad:
                    out.fail("curvature_not_permuted", "%s %s x=%r T=%r: %s" % (name, ph, x.tolist(), T, "; ".join(bad)))
                out.label("curvature_compared")
    finally:
        sys.stdout = so
    out.label(name)
    out.nt(True)
    return out


def check_mobility(case):
    import importlib
    from kawin.diffusion.DiffusionParameters import computeMobility
    HP = importlib.import_module("kawin.diffusion.HomogenizationParameters")
    out = Out()
    name = case["system"]
    A, B, _, _ = GPAIRS[name]
    ta, tb = realdb.get(A), realdb.get(B)
    x = np.array(case["x"], dtype=float)
    xr = x[::-1].copy()
    T = case["T"]
    so = sys.stdout
    sys.stdout = io.StringIO()
    try:
        ma = computeMobility(ta, x, T)
        mb = computeMobility(tb, xr, T)
        pa, pb = [str(p) for p in ma.phases[0]], [str(p) for p in mb.phases[0]]
        if pa != pb:
            out.label("different_phase_sets")
            return out
        if not _close(np.array(ma.phase_fractions[0]), np.array(mb.phase_fractions[0]), 1e-6, 1e-9):
            out.fail("phase_fractions_order_dependent", "%s x=%r T=%r: phase fractions %r vs %r" % (name, x.tolist(), T, ma.phase_fractions[0].tolist(), mb.phase_fractions[0].tolist()))
        Ma, Mb = np.array(ma.mobility[0], dtype=float), np.array(mb.mobility[0], dtype=float)
        if not _close(Ma[:, [0, 2, 1]], Mb, 1e-6):
            out.fail("mobility_not_permuted", "%s x=%r T=%r: per-phase mobilities %r vs %r (columns should follow the element order)" % (name, x.tolist(), T, Ma.tolist(), Mb.tolist()))
        if not _close(np.array(ma.chemical_potentials[0])[[0, 2, 1]], mb.chemical_potentials[0], 1e-6, 1e-3):
            out.fail("chemical_potentials_not_permuted", "%s x=%r T=%r: chemical potentials %r vs %r" % (name, x.tolist(), T, np.array(ma.chemical_potentials[0]).tolist(), np.array(mb.chemical_potentials[0]).tolist()))
        hp = HP.HomogenizationParameters(case["rule"])
        ha, mua = HP.computeHomogenizationFunction(ta, x, T, hp)
        hb, mub = HP.computeHomogenizationFunction(tb, xr, T, hp)
        if not _close(np.array(ha)[[0, 2, 1]], hb, 1e-6):
            out.fail("homogenized_mobility_not_permuted", "%s x=%r T=%r rule %s: %r vs %r" % (name, x.tolist(), T, case["rule"], np.array(ha).tolist(), np.array(hb).tolist()))
    finally:
        sys.stdout = so
    out.label(name, "stable_%d" % len(pa))
    out.nt(True)
    return out


def check_diffusion_run(case):
    """Short single-phase diffusion run on Ni-Cr-Al fcc with both solute orders: profiles are permuted rows."""
    from kawin.diffusion import SinglePhaseModel
    from .. import harness_diff as HD
    out = Out()
    so = sys.stdout
    sys.stdout = io.StringIO()
    try:
        res = []
        for order, db in ((["NI", "CR", "AL"], "nicral_gen"), (["NI", "AL", "CR"], "nicral_gen_rev")):
            th = realdb.get(db)
            th.clearCache()
            m = SinglePhaseModel([0, case["L"]], case["N"], order, ["FCC_A1"], thermodynamics=th)
            m.setTemperature(case["T"])
            m.setCompositionStep(case["cr"][0], case["cr"][1], case["L"] / 2, "CR")
            m.setCompositionLinear(case["al"][0], case["al"][1], "AL")
            it = HD.CapIter(case["iterator"], case["steps"])
            try:
                m.solve(1e9, solverType=it, minDtFrac=1e-12)     # dtmin = 1e-3 s, far below the stable step
            except HD.StepCap:
                pass
            res.append((m.t, np.array(m.x), order))
    finally:
        sys.stdout = so
    (t1, x1, o1), (t2, x2, o2) = res
    if not np.isclose(t1, t2, rtol=1e-6, atol=0):
        out.fail("diffusion_time_order_dependent", "after %d steps the two solute orders reached t=%r and t=%r" % (case["steps"], t1, t2))
    cr1, al1 = x1[o1[1:].index("CR")], x1[o1[1:].index("AL")]
    cr2, al2 = x2[o2[1:].index("CR")], x2[o2[1:].index("AL")]
    if not (np.allclose(cr1, cr2, rtol=1e-6, atol=1e-9) and np.allclose(al1, al2, rtol=1e-6, atol=1e-9)):
        out.fail("diffusion_profile_not_permuted", "Ni-Cr-Al diffusion couple: profiles differ between solute orders (max |dCr| %.3e, max |dAl| %.3e)" % (float(np.max(np.abs(cr1 - cr2))), float(np.max(np.abs(al1 - al2)))))
    out.nt(True)
    return out


def check_shared_list(case):
    """The element list handed to the constructor stays the caller's: reordering it in place afterwards (to build the object for the
    permuted listing, the obvious way to do it) must not change the element order of the object built first."""
    from kawin.tests import datasets as D
    from kawin.thermo import GeneralThermodynamics
    out = Out()
    db, base = {"nicral": (D.NICRAL_TDB, ["NI", "CR", "AL"]), "fecrni": (D.FECRNI_DB, ["FE", "CR", "NI"])}[case["system"]]
    els = list(base) + (["VA"] if case["with_va"] else [])
    x = np.array(case["x"], dtype=float)
    T = case["T"]
    so = sys.stdout
    sys.stdout = io.StringIO()
    try:
        A = GeneralThermodynamics(db, els, ["FCC_A1"])
        D1 = np.array(A.getInterdiffusivity(x.copy(), T), dtype=float)
        T1 = np.array(A.getTracerDiffusivity(x.copy(), T), dtype=float)
        els[1], els[2] = els[2], els[1]                      # the caller's list, reordered in place
        B = GeneralThermodynamics(db, els, ["FCC_A1"])
        D2 = np.array(A.getInterdiffusivity(x.copy(), T), dtype=float)
        T2 = np.array(A.getTracerDiffusivity(x.copy(), T), dtype=float)
        DB = np.array(B.getInterdiffusivity(x[::-1].copy(), T), dtype=float)
        TB = np.array(B.getTracerDiffusivity(x[::-1].copy(), T), dtype=float)
    finally:
        sys.stdout = so
    if not (_close(D1, D2, 1e-9, 0) and _close(T1, T2, 1e-9, 0)):
        out.fail("object_follows_callers_list", "%s (list %s 'VA'): the first object answers %r / %r before and %r / %r after the caller reordered the list it was built from" % (case["system"], "with" if case["with_va"] else "without", D1.tolist(), T1.tolist(), D2.tolist(), T2.tolist()))
    if not _close(D1[::-1, ::-1], DB, 1e-6, 1e-9 * np.max(np.abs(D1))) or not _close(T1[[0, 2, 1]], TB, 1e-6):
        out.fail("interdiffusivity_not_permuted", "%s: object built from the reordered list: D %r, tracer %r; permuted answers of the first object: %r, %r" % (case["system"], DB.tolist(), TB.tolist(), D1[::-1, ::-1].tolist(), T1[[0, 2, 1]].tolist()))
    out.label(case["system"], "list_with_VA" if case["with_va"] else "list_without_VA")
    out.nt(case["with_va"])
    return out


@st.composite
def _shared(draw):
    name = draw(st.sampled_from(["nicral", "fecrni"]))
    rng, Tr = {"nicral": ([(0.02, 0.3), (0.01, 0.12)], (1200, 1500)), "fecrni": ([(0.05, 0.3), (0.05, 0.3)], (1200, 1500))}[name]
    return {"system": name, "with_va": draw(st.sampled_from([True, True, False])), "x": [draw(st.floats(*rng[0])), draw(st.floats(*rng[1]))], "T": draw(st.floats(*Tr))}


@st.composite
def _q(draw):
    name = draw(st.sampled_from(["nicral", "nicral", "almgsi"]))
    _, _, precs, rng, Tr, _ = PAIRS[name]
    return {"system": name, "x": [draw(st.floats(*rng[0])), draw(st.floats(*rng[1]))], "T": draw(st.floats(*Tr)), "phase": draw(st.integers(0, 4)),
            "method": draw(st.sampled_from(["tangent", "tangent", "approximate", "sampling", "curvature"]))}


@st.composite
def _m(draw):
    name = draw(st.sampled_from(sorted(GPAIRS)))
    _, _, rng, Tr = GPAIRS[name]
    return {"system": name, "x": [draw(st.floats(*rng[0])), draw(st.floats(*rng[1]))], "T": draw(st.floats(*Tr)), "rule": draw(st.sampled_from(["wiener upper", "wiener lower", "hashin upper", "hashin lower", "lab"]))}


@st.composite
def _d(draw):
    return {"L": 10 ** draw(st.floats(-5, -3)), "N": draw(st.integers(8, 20)), "T": draw(st.floats(1250, 1500)), "cr": [draw(st.floats(0.02, 0.25)), draw(st.floats(0.02, 0.25))],
            "al": [draw(st.floats(0.01, 0.1)), draw(st.floats(0.01, 0.1))], "iterator": draw(st.sampled_from(["euler", "rk4"])), "steps": draw(st.integers(2, 8))}


def clauses():
    return [
        Clause("element_order_queries", _q, check_queries, quick=120, thorough=6000, shrink=False,
               rule="generator: Ni-Cr-Al (gamma prime, solutes listed as [CR,AL] and [AL,CR]) and Al-Mg-Si (five stoichiometric phases, [MG,SI] and [SI,MG]) compositions/temperatures; driving force and nucleus composition (by the tangent, approximate, sampling or curvature method, selected through setDrivingForceMethod), interdiffusivity, tracer diffusivity and curvature factors evaluated on one thermodynamics object per order with caches discarded; outputs must be equal after applying the permutation"),
        Clause("element_list_owned_by_caller", _shared, check_shared_list, quick=6, thorough=80, shrink=False,
               rule="generator: Ni-Cr-Al / Fe-Cr-Ni fcc point, element list with or without 'VA'; one list object is used to build the first thermodynamics object, reordered in place, and used again for the permuted one; "
                    "oracle: the first object's interdiffusivity and tracer diffusivities are unchanged by the reordering, the second object's are the permuted ones; non-trivial: list containing 'VA'"),
        Clause("element_order_mobility", _m, check_mobility, quick=120, thorough=6000, shrink=False,
               rule="generator: Ni-Cr-Al and Fe-Cr-Ni (fcc+bcc) points with both solute orders: per-phase mobilities, phase fractions, chemical potentials and the five homogenization rules must be permuted accordingly"),
        Clause("element_order_diffusion_run", _d, check_diffusion_run, quick=12, thorough=300, shrink=False,
               rule="generator: Ni-Cr-Al fcc diffusion couples (step in Cr, gradient in Al, 8-20 nodes, 2-8 steps, both iterators) solved with both solute orders; time reached and profiles must agree"),
    ]
