"""C19 — stopping conditions stop the run when, and only when, they are met."""
import io
import sys

import numpy as np
from hypothesis import strategies as st

from ..core import Clause, Out
from .. import harness_kwn as H, scen

LEVEL = "exploration"
ASSUMPTIONS = [
    "thresholds are placed from a dry run of the same (deterministic, toy-backend) scenario so that conditions are met early, late or never",
    "'reported time lies within the crossing step' is demanded only when a crossing happened (previous recorded value on the other side of the threshold); conditions already true at the first tested step only need to latch",
    "conditions are first tested after step 1 (the model tests them in its post-processing), so 'first step at which satisfied' ranges over steps >= 1",
]
QUANT = ["volFrac", "Ravg", "drivingForce", "nucRate", "precipitateDensity", "composition"]


def _make_cond(q, ineq, value, phase, element):
    from kawin.precipitation import StoppingConditions as S
    I = S.Inequality.GREATER_THAN if ineq == ">" else S.Inequality.LESSER_THAN
    cls = {"volFrac": S.VolumeFractionCondition, "Ravg": S.AverageRadiusCondition, "drivingForce": S.DrivingForceCondition,
           "nucRate": S.NucleationRateCondition, "precipitateDensity": S.PrecipitateDensityCondition}
    if q == "composition":
        return S.CompositionCondition(I, value, element=element)
    return cls[q](I, value, phase=phase)


def _series(pd, q, pidx, eidx=0):
    if q == "composition":
        return np.asarray(pd.composition)[:, eidx]
    return np.asarray(getattr(pd, q))[:, pidx]


def _thresholds(sc, conds):
    """Dry run without conditions; place each threshold from the recorded series."""
    so = sys.stdout
    sys.stdout = io.StringIO()
    try:
        res = H.run(sc)
    finally:
        sys.stdout = so
    pd = res["model"].pData
    names = [p["name"] for p in sc["phases"]]
    out = []
    for c in conds:
        pidx = c["phase"] % len(names)
        solutes = ["B"] if sc["system"] == "toy_bin" else list(sc.get("solutes", ["B", "C"]))
        eidx = c.get("elem", 0) % len(solutes)
        s = _series(pd, c["q"], pidx, eidx)
        n = len(s)
        if c["place"] == "never":
            v = (np.nanmax(s) * 2 + 1) if c["ineq"] == ">" else (np.nanmin(s) - abs(np.nanmin(s)) - 1)
        else:
            k = max(1, min(n - 1, int(round(c["at"] * (n - 1)))))
            lo, hi = (s[k - 1], s[k]) if k > 0 else (s[k], s[k])
            v = lo + c["frac"] * (hi - lo)
            if c["place"] == "equal":
                v = s[k]              # the threshold is bit-equal to a recorded value: both inequalities are strict

        # the element of a composition condition: by name, or left to the default (first solute) when it is the first
        ename = None if (eidx == 0 and c.get("elem_default", True)) else solutes[eidx]
        out.append({"q": c["q"], "ineq": c["ineq"], "value": float(v), "phase": names[pidx], "pidx": pidx, "mode": c["mode"], "eidx": eidx, "element": ename})
    return out, res


def check_stop(case):
    out = Out()
    sc = case["sc"]
    conds, dry = _thresholds(sc, case["conds"])
    if not all(np.isfinite(c["value"]) for c in conds):
        out.label("nonfinite_threshold")
        return out
    model, therm = H.build_model(sc)
    if case.get("earlier_conditions"):
        # the model carried other conditions before (e.g. a TTP calculation installs and-conditions); clearStoppingConditions() is
        # the documented way to start over
        for c in conds[: max(1, len(conds) // 2)]:
            model.addStoppingCondition(_make_cond(c["q"], c["ineq"], c["value"] * 1.01 + 1e-30, c["phase"], c.get("element")), case["earlier_conditions"])
        model.clearStoppingConditions()
        out.label("after_cleared_" + case["earlier_conditions"] + "_conditions")
    objs = []
    for c in conds:
        o = _make_cond(c["q"], c["ineq"], c["value"], c["phase"], c.get("element"))
        model.addStoppingCondition(o, c["mode"])
        objs.append(o)
    hist = []

    def watch(m, snap):
        hist.append([(o.isSatisfied(), o.satisfiedTime()) for o in objs])

    so = sys.stdout
    sys.stdout = io.StringIO()
    try:
        try:
            res = H.run(sc, callbacks=[watch], model=model, therm=therm)
        finally:
            sys.stdout = so
    except Exception as e:
        import traceback
        if "/kawin/" not in traceback.format_exc():
            raise
        out.fail("condition_raised:%s" % type(e).__name__, "run with stopping conditions raised %s: %s" % (type(e).__name__, e))
        return out
    pd = model.pData
    t = np.asarray(pd.time)
    nrows = len(t)
    # recompute satisfaction from the recorded history
    first = []
    for c in conds:
        s = _series(pd, c["q"], c["pidx"], c.get("eidx", 0))
        test = (s > c["value"]) if c["ineq"] == ">" else (s < c["value"])
        idx = [i for i in range(1, nrows) if test[i]]
        first.append(idx[0] if idx else None)
    ors = [f for f, c in zip(first, conds) if c["mode"] == "or" and f is not None]
    ands = [f for f, c in zip(first, conds) if c["mode"] == "and"]
    cand = []
    if ors:
        cand.append(min(ors))
    if ands and all(f is not None for f in ands):
        cand.append(max(ands))
    nstar = min(cand) if cand else None
    total = sum(sc["durations"])
    ncalls = len(sc["durations"])
    last = nrows - 1
    out.label("conds_%d" % len(conds), "met" if nstar is not None else "never_met")
    if any(c["q"] == "composition" and c.get("eidx", 0) > 0 for c in conds):
        out.label("composition_condition_on_second_solute")
    if res["truncated"]:
        out.label("truncated")
    rows = res["rows_after_call"]          # number of recorded rows after set-up and after every solve call
    tstart = 0.0
    for k in range(1, len(rows)):
        a, b = rows[k - 1] - 1, rows[k] - 1      # the call produced rows a+1 .. b
        dur = sc["durations"][k - 1]
        tend = tstart + dur
        is_last_truncated = res["truncated"] and k == len(rows) - 1
        must_stop_at = None if nstar is None or nstar > b else max(nstar, a + 1)
        if must_stop_at is not None:
            if b > must_stop_at:
                out.fail("did_not_stop", "solve call %d: conditions were met at step %d (t=%r) but the call continued to step %d (t=%r)" % (k - 1, must_stop_at, t[must_stop_at], b, t[b]), nstar=nstar)
                break
        elif not is_last_truncated and b > a:
            if abs(t[b] - tend) > 2 * np.spacing(tend):
                out.fail("stopped_without_condition", "solve call %d: no condition is met in the recorded history up to step %d but the call ended at t=%r instead of %r" % (k - 1, b, t[b], tend))
                break
        tstart = t[b]
    if nstar is not None:
        out.nt(1 < nstar)
        if 1 < nstar:
            out.label("met_inside")
    # latching and reported times
    for j, (c, o) in enumerate(zip(conds, objs)):
        f = first[j]
        if f is not None and f <= last:
            if not o.isSatisfied():
                out.fail("not_latched", "condition %d (%s %s %r) was met at step %d but is not reported satisfied" % (j, c["q"], c["ineq"], c["value"], f))
                continue
            s = _series(pd, c["q"], c["pidx"], c.get("eidx", 0))
            prev_test = (s[f - 1] > c["value"]) if c["ineq"] == ">" else (s[f - 1] < c["value"])
            st_ = o.satisfiedTime()
            if not prev_test and s[f] != s[f - 1]:
                lin = t[f - 1] + (t[f] - t[f - 1]) * (c["value"] - s[f - 1]) / (s[f] - s[f - 1])
                if not (t[f - 1] * (1 - 1e-12) <= st_ <= t[f] * (1 + 1e-12)):
                    out.fail("time_outside_step", "condition %d crossed between t=%r and t=%r but reports %r" % (j, t[f - 1], t[f], st_))
                elif abs(st_ - lin) > 1e-9 * abs(lin):
                    out.fail("time_not_interpolated", "condition %d reports %r, linear interpolation gives %r" % (j, st_, lin))
                out.label("crossing")
            # the reported time must not change after it latched
            times = [h[j][1] for h in hist if h[j][0]]
            if any(x != times[0] for x in times) or (times and times[0] != st_):
                out.fail("latched_time_changed", "condition %d reported times %r after latching" % (j, sorted(set(times + [st_]))[:4]))
            sat = [h[j][0] for h in hist]
            if any(a and not b for a, b in zip(sat[:-1], sat[1:])):
                out.fail("unlatched", "condition %d went from satisfied back to unsatisfied" % j)
        elif f is None:
            if o.isSatisfied():
                out.fail("satisfied_without_crossing", "condition %d (%s %s %r) is reported satisfied at %r but the recorded history never meets it" % (j, c["q"], c["ineq"], c["value"], o.satisfiedTime()))
            elif o.satisfiedTime() != -1:
                out.fail("time_without_satisfaction", "unsatisfied condition %d reports time %r (documented: -1)" % (j, o.satisfiedTime()))
    return out


def check_ttp(case):
    from kawin.precipitation.TimeTemperaturePrecipitation import TTPCalculator
    out = Out()
    sc = dict(case["sc"])
    sc["T"] = ["const", case["temps"][0]]
    sc["durations"] = [sum(case["sc"]["durations"])]
    conds, dry = _thresholds(sc, case["conds"])
    if not all(np.isfinite(c["value"]) for c in conds):
        return out
    maxTime = sc["durations"][0]
    # reference: independent runs per temperature with 'and' conditions
    expect = []
    so = sys.stdout
    sys.stdout = io.StringIO()
    try:
        for T in case["temps"]:
            sc2 = dict(sc)
            sc2["T"] = ["const", T]
            sc2["cap"] = 10 ** 9
            m, th = H.build_model(sc2)
            objs = [_make_cond(c["q"], c["ineq"], c["value"], c["phase"], c.get("element")) for c in conds]
            for o in objs:
                m.addStoppingCondition(o, "and")
            m.solve(maxTime, solverType=H.StepTap(m, "rk4", cap=case["cap"]).inner)
            expect.append([o.satisfiedTime() for o in objs])
        m, th = H.build_model(sc)
        objs = [_make_cond(c["q"], c["ineq"], c["value"], c["phase"], c.get("element")) for c in conds]
        calc = TTPCalculator(m, objs)
        calc.calculateTTP(case["temps"][0], case["temps"][-1], len(case["temps"]), maxTime)
    except H.StepCap:
        sys.stdout = so
        out.label("truncated")
        return out
    except Exception as e:
        import traceback
        sys.stdout = so
        if "/kawin/" not in traceback.format_exc():
            raise
        out.fail("condition_raised:%s" % type(e).__name__, "TTP / conditioned run raised %s: %s" % (type(e).__name__, e))
        return out
    finally:
        sys.stdout = so
    got = np.asarray(calc.transformationTimes)
    exp = np.asarray(expect)
    if got.shape != exp.shape or not np.array_equal(got, exp):
        out.fail("ttp_mismatch", "TTP calculator reports %r, independent runs at the same temperatures report %r" % (got.tolist(), exp.tolist()))
    out.nt(bool(np.any(exp > 0)) and bool(np.any(exp == -1) or len(conds) > 1))
    if np.any(exp == -1):
        out.label("some_never_met")
    return out


@st.composite
def _cond(draw):
    return {"q": draw(st.sampled_from(QUANT)), "ineq": draw(st.sampled_from([">", "<"])), "phase": draw(st.integers(0, 2)),
            "place": draw(st.sampled_from(["at", "at", "at", "at", "never", "never", "equal"])), "at": draw(st.floats(0.02, 1.0)), "frac": draw(st.floats(0.05, 0.95)),
            "mode": draw(st.sampled_from(["or", "or", "and"])), "elem": draw(st.integers(0, 1)), "elem_default": draw(st.booleans())}


@st.composite
def _stop_case(draw):
    if draw(st.integers(0, 3)) == 3:
        # two solutes: a composition condition names its element
        sc = draw(scen.toy_multi_scenario(cap=200, max_phases=2))
        conds = draw(st.lists(_cond(), min_size=0, max_size=3))
        conds.append(dict(draw(_cond()), q="composition", elem=draw(st.sampled_from([1, 1, 0])), elem_default=draw(st.booleans())))
        return {"sc": sc, "conds": conds, "earlier_conditions": draw(st.sampled_from([None, None, None, "and", "or"]))}
    else:
        sc = draw(scen.toy_binary_scenario(cap=250, max_phases=2, undersat=False))
    return {"sc": sc, "conds": draw(st.lists(_cond(), min_size=1, max_size=4)), "earlier_conditions": draw(st.sampled_from([None, None, None, "and", "or"]))}


@st.composite
def _ttp_case(draw):
    sc = draw(scen.toy_binary_scenario(cap=10 ** 9, max_phases=1, allow_profile=False, undersat=False, sites=["bulk", "dislocations"], allow_shapes=False))
    sc["constraints"] = dict(sc["constraints"], dtScale=0.2)
    sc["durations"] = [min(sum(sc["durations"]), 2000.0)]
    sc["minDtFrac"] = 1e-3
    T0 = sc["T"][1]
    n = draw(st.integers(2, 3))
    temps = list(np.linspace(T0 - draw(st.floats(5, 40)), T0, n))
    conds = draw(st.lists(_cond(), min_size=1, max_size=3))
    for c in conds:
        c["mode"] = "and"
    return {"sc": sc, "conds": conds, "temps": [float(x) for x in temps], "cap": 1500}


def clauses():
    return [
        Clause("stop", _stop_case, check_stop, quick=150, thorough=3000, shrink=False,
               rule="generator: toy binary (3 in 4) or toy ternary scenario (1-2 phases) x 1-4 conditions over {volume fraction, mean radius, driving force, nucleation rate, density, composition} x {>,<} x phase / element (by name or default) x 'or'/'and', thresholds placed between two recorded values of a dry run (early/late), exactly on a recorded value, or out of range (never); "
                    "oracle recomputed from the recorded history: stop step, end time, latching, crossing time inside the step and linearly interpolated; non-trivial: conditions first met strictly inside the run (step > 1)"),
        Clause("ttp", _ttp_case, check_ttp, quick=24, thorough=400, shrink=False,
               rule="generator: isothermal toy binary scenario x 1-3 'and' conditions x 2-3 temperatures; TTP calculator entries vs independent runs with the same conditions (-1 when never met); non-trivial: some time reported and (a -1 entry or several conditions)"),
    ]
