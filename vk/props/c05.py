"""C05 — the solver honours its time and state contract for any model.

Generated *programs*: GenericModel subclasses described by data (state layout, derivative rule,
cycled list of step proposals incl. 0 / negative / inf / NaN / tiny / huge, stop step,
shape-changing postProcess), alone or coupled through Coupler, one or several solve calls.
Oracle: invariants over the history recorded inside the model's own callbacks.
"""
import math

import numpy as np
from hypothesis import strategies as st

from ..core import Clause, Out, unjson_float

LEVEL = "exploration"
ASSUMPTIONS = [
    "time comparisons use 2 ulp of the end time ('exactly t0+dt_total' read as 'to rounding of the additions')",
    "generated durations keep minDtFrac*duration >= 1e3 ulp(t0+duration), so that the minimum step is resolvable on the clock",
    "N-D state entries are generated only with a model-supplied flattenX, as the GenericModel documentation requires",
]


class TooManySteps(Exception):
    pass


def _iter(name):
    from kawin.solver.Solver import SolverType
    return {"euler": SolverType.EXPLICITEULER, "rk4": SolverType.RK4}[name]


def _shape(e):
    if e == 0:
        return ()
    if isinstance(e, int):
        return (e,)
    return tuple(e)


def build_model(spec, log, idx, t0, cap):
    from kawin.GenericModel import GenericModel
    layout = [_shape(e) for e in spec["layout"]]
    props = [unjson_float(p) for p in spec["proposals"]]
    rule = spec["rule"]
    nd = any(len(s) > 1 for s in layout)

    class M(GenericModel):
        def __init__(self):
            super().__init__()
            self.time = [t0]
            self.x = [np.float64(0.3) if s == () else np.full(s, 0.5) + 0.01 * np.arange(int(np.prod(s))).reshape(s) for s in layout]
            self.layout = list(layout)
            self.ncalls = 0
            self.nsteps = 0      # per solve call
            self.stopped = False
            self.after_stop = 0

        def _chk(self, where, x):
            if self.stopped:
                self.after_stop += 1
            if not isinstance(x, list) or len(x) != len(self.layout):
                log.append(("layout", idx, where, "container %s len %s, expected list of %d" % (type(x).__name__, len(x) if hasattr(x, "__len__") else "?", len(self.layout))))
                return False
            for k, (xe, s) in enumerate(zip(x, self.layout)):
                sh = np.shape(xe)
                if sh != s:
                    log.append(("layout", idx, where, "entry %d has shape %s, model supplied %s" % (k, sh, s)))
                    return False
                if np.asarray(xe).dtype.kind != "f":
                    log.append(("layout", idx, where, "entry %d has dtype %s" % (k, np.asarray(xe).dtype)))
                    return False
            return True

        def getCurrentX(self):
            return self.time[-1], list(self.x)

        def getdXdt(self, t, x):
            self._chk("getdXdt", x)
            log.append(("f", idx, float(t)))
            out = []
            for xe in x:
                xe = np.asarray(xe, dtype=float)
                if rule == "zero":
                    d = np.zeros_like(xe)
                elif rule == "const":
                    d = np.ones_like(xe) * 0.1
                elif rule == "linear":
                    d = -0.3 * xe
                else:
                    d = 0.2 * np.sin(xe) + 0.01 * t / (1.0 + abs(t))
                out.append(np.float64(d) if d.shape == () else d)
            return out

        def getDt(self, dXdt):
            self._chk("getDt", dXdt)
            p = props[self.ncalls % len(props)]
            self.ncalls += 1
            if isinstance(p, str) and p.startswith("frac:"):
                return float(p[5:]) * self.deltaTime
            return p

        def correctdXdt(self, dt, x, dXdt):
            self._chk("correctdXdt.x", x)
            self._chk("correctdXdt.dXdt", dXdt)
            if not (dt > 0) or not math.isfinite(dt):
                log.append(("dt_bad", idx, "correctdXdt received dt=%r" % (dt,)))

        def postProcess(self, time, x):
            self._chk("postProcess", x)
            self.nsteps += 1
            if self.nsteps > cap:
                raise TooManySteps()
            self.time.append(float(time))
            x = list(x)
            rs = spec.get("reshape") or {}
            r = rs.get(str(len(self.time) - 1))
            if r is not None:
                j, newlen = r
                if j < len(x) and len(self.layout[j]) == 1:
                    old = np.asarray(x[j], dtype=float)
                    if newlen > len(old):
                        x[j] = np.concatenate([old, np.zeros(newlen - len(old))])
                    else:
                        x[j] = old[:max(1, newlen)].copy()
                    self.layout[j] = np.shape(x[j])
            self.x = x
            log.append(("post", idx, float(time)))
            stop = spec.get("stop_at") is not None and self.nsteps == spec["stop_at"]
            if stop:
                self.stopped = True
                log.append(("stop", idx, float(time)))
            return x, stop

    if nd:
        def flattenX(self, X):
            return np.concatenate([np.ravel(np.asarray(v, dtype=float)) for v in X])
        M.flattenX = flattenX
    return M()


def check_program(case):
    from kawin.GenericModel import Coupler
    out = Out()
    minf, maxf = case["minfrac"], case["maxfrac"]
    fracs = case.get("fracs") or [[minf, maxf]] * len(case["durations"])      # step fractions may differ from one solve call to the next
    t0 = case["t0"]
    it = _iter(case["iterator"])
    bound = int(math.ceil(1.0 / min(f[0] for f in fracs))) + 2
    cap = 4 * bound + 8
    log = []
    models = [build_model(s, log, i, t0, cap) for i, s in enumerate(case["models"])]
    coupled = len(models) > 1 or case.get("force_coupler")
    if coupled:
        top = Coupler(models)
        top.time = np.array([t0])
        out.label("coupled")
    else:
        top = models[0]
    out.label(case["iterator"], "models_%d" % len(models))
    degenerate = 0
    if len(set(map(tuple, fracs))) > 1:
        out.label("step_fractions_change_between_calls")
    for icall, dur in enumerate(case["durations"]):
        minf, maxf = fracs[icall]
        bound = int(math.ceil(1.0 / minf)) + 2
        tstart = float(top.time[-1]) if coupled else models[0].time[-1]
        tf = tstart + dur
        for m in models:
            m.nsteps = 0
            m.stopped = False
            m.after_stop = 0
        n0 = len(log)
        nt0 = [len(m.time) for m in models]
        try:
            top.solve(dur, solverType=it, minDtFrac=minf, maxDtFrac=maxf)
        except TooManySteps:
            out.fail("non_termination", "more than %d steps (bound ceil(1/minDtFrac)+2 = %d) for duration %r" % (cap, bound, dur))
            return out
        except Exception as e:
            # the generated programs are legal (the solver documents that the state may change shape in postProcess): an exception
            # raised from inside kawin while running one is a broken contract, anything else is the harness's fault
            import traceback
            fr = [f for f in traceback.extract_tb(e.__traceback__) if "/kawin/" in f.filename]
            if not fr:
                raise
            out.fail("solve_raised:%s" % type(e).__name__, "solve(%r) raised %r at %s:%d (%s) after %d callbacks" % (dur, e, fr[-1].filename.split("/kawin/")[-1], fr[-1].lineno, fr[-1].name, len(log) - n0))
            return out
        ulp = np.spacing(abs(tf)) if tf != 0 else np.spacing(dur)
        dtmin, dtmax = minf * dur, maxf * dur
        stopped = any(m.stopped for m in models)
        for mi, (m, k0) in enumerate(zip(models, nt0)):
            ts = np.array(m.time[k0 - 1:])
            steps = np.diff(ts)
            if len(steps) == 0:
                out.fail("no_step", "solve(%r) took no step" % dur)
                continue
            if not np.all(steps > 0):
                k = int(np.argmin(steps > 0))
                out.fail("time_not_increasing", "accepted times not strictly increasing at step %d: %r -> %r" % (k, ts[k], ts[k + 1]))
            if ts.max() > tf + 2 * ulp:
                out.fail("overshoot", "accepted time %r exceeds end time %r" % (ts.max(), tf))
            if not stopped and abs(ts[-1] - tf) > 2 * ulp:
                out.fail("end_time", "run ended at %r, requested %r (diff %.3e, ulp %.1e)" % (ts[-1], tf, ts[-1] - tf, ulp))
            tol = 4 * np.spacing(max(abs(tstart), abs(tf)))
            for k, h in enumerate(steps):
                ends_at_tf = ts[k + 1] >= tf - 2 * ulp
                if h > dtmax + tol:
                    out.fail("step_above_max", "step %d = %r > dtmax %r" % (k, h, dtmax))
                    break
                if h < dtmin - tol and not ends_at_tf:
                    out.fail("step_below_min", "step %d = %r < dtmin %r and does not end the run (t=%r, tf=%r)" % (k, h, dtmin, ts[k + 1], tf))
                    break
            if len(steps) > bound:
                out.fail("too_many_steps", "%d steps > ceil(1/minDtFrac)+2 = %d" % (len(steps), bound))
            if m.after_stop:
                out.fail("callback_after_stop", "model %d received %d callbacks after requesting stop" % (mi, m.after_stop))
            if stopped and coupled is False and case["models"][0].get("stop_at") is not None and len(steps) != case["models"][0]["stop_at"]:
                out.fail("stop_ignored", "stop requested at step %s, run took %d steps" % (case["models"][0]["stop_at"], len(steps)))
        if coupled:
            ct = np.array(top.time)
            for mi, m in enumerate(models):
                tm = np.array(m.time[nt0[mi]:])
                tc = ct[len(ct) - len(tm):]
                if len(tm) and (len(tc) != len(tm) or np.any(tm != tc)):
                    out.fail("clock_mismatch", "sub-model %d clock differs from the coupler clock" % mi)
            if stopped:
                first = min(m_spec["stop_at"] for m_spec in case["models"] if m_spec.get("stop_at") is not None)
                nst = len(models[0].time) - nt0[0]
                if nst != first:
                    out.fail("stop_ignored", "earliest stop requested at step %d, coupled run took %d steps" % (first, nst))
        if stopped:
            out.label("stopped")
        out.label("steps_%s" % ("1" if len(models[0].time) - nt0[0] == 1 else "few" if len(models[0].time) - nt0[0] < 10 else "many"))
    for rec in log:
        if rec[0] == "layout":
            out.fail("state_layout", "model %d, %s: %s" % (rec[1], rec[2], rec[3]))
            break
        if rec[0] == "dt_bad":
            out.fail("bad_dt_passed", rec[2])
            break
    for s in case["models"]:
        for p in s["proposals"]:
            p = unjson_float(p)
            if not isinstance(p, str) and (not math.isfinite(p) or p <= 0):
                degenerate += 1
        if s.get("reshape"):
            out.label("reshape")
    if degenerate:
        out.label("degenerate_proposal")
    if len(case["durations"]) > 1:
        out.label("multi_solve")
    nsteps = len(models[0].time) - 1
    out.nt((degenerate > 0 and nsteps >= 3) or coupled or any(s.get("stop_at") for s in case["models"]))
    return out


@st.composite
def _model(draw, allow_nd=True):
    n = draw(st.integers(1, 4))
    layout = []
    for _ in range(n):
        k = draw(st.integers(0, 9))
        if k <= 2:
            layout.append(0)
        elif k <= 8 or not allow_nd:
            layout.append(draw(st.integers(1, 7)))
        else:
            layout.append([draw(st.integers(1, 3)), draw(st.integers(1, 3))])
    prop = st.one_of(
        st.sampled_from([0.0, -1.0, "Infinity", "NaN", 1e-300, 1e300, -1e-30, "-Infinity"]),
        st.floats(1e-4, 1.0).map(lambda f: "frac:%r" % f),
        st.floats(1e-12, 1e8),
    )
    proposals = draw(st.lists(prop, min_size=1, max_size=6))
    spec = {"layout": layout, "rule": draw(st.sampled_from(["zero", "const", "linear", "state"])), "proposals": proposals}
    if draw(st.integers(0, 3)) == 0:
        spec["stop_at"] = draw(st.integers(1, 12))
    else:
        spec["stop_at"] = None
    if draw(st.integers(0, 2)) == 0:
        arr = [i for i, e in enumerate(layout) if isinstance(e, int) and e > 0]
        if arr:
            rs = {}
            for _ in range(draw(st.integers(1, 3))):
                rs[str(draw(st.integers(1, 10)))] = [draw(st.sampled_from(arr)), draw(st.integers(1, 10))]
            spec["reshape"] = rs
    return spec


@st.composite
def _program(draw):
    nm = draw(st.sampled_from([1, 1, 1, 2, 2, 3]))
    models = [draw(_model()) for _ in range(nm)]
    minf = draw(st.one_of(st.floats(1e-3, 0.5), st.sampled_from([1e-3, 0.01, 0.1, 0.5])))
    maxf = draw(st.one_of(st.floats(minf, 1.0), st.just(1.0), st.just(minf)))
    nd = draw(st.sampled_from([1, 1, 2, 3]))
    durations = [10 ** draw(st.floats(-6, 6)) for _ in range(nd)]
    t0 = draw(st.one_of(st.just(0.0), st.floats(0.0, 1e4)))
    # keep the minimum step resolvable on the clock
    tend = t0 + sum(durations)
    if min(durations) * minf < 1e3 * np.spacing(tend):
        t0 = 0.0
        tend = sum(durations)
        if min(durations) * minf < 1e3 * np.spacing(tend):
            durations = [max(durations)]
    case = {"models": models, "minfrac": minf, "maxfrac": maxf, "durations": durations, "t0": t0,
            "iterator": draw(st.sampled_from(["euler", "rk4"])), "force_coupler": draw(st.booleans()) if nm == 1 else True}
    if len(durations) > 1 and draw(st.booleans()):
        # other step fractions for the later calls (never a smaller minimum than the first call's, which the resolvability rule above used)
        fr = [[minf, maxf]]
        for _ in durations[1:]:
            mn = draw(st.one_of(st.floats(minf, 0.5), st.sampled_from([minf, 0.5])))
            fr.append([mn, draw(st.one_of(st.floats(mn, 1.0), st.just(1.0), st.just(mn)))])
        case["fracs"] = fr
    return case


def clauses():
    return [
        Clause("programs", _program, check_program, quick=8000, thorough=200000,
               rule="generator: 1-3 data-described GenericModel subclasses (1-4 state entries scalar/1-D/2-D, 4 derivative rules, cycled step proposals from {0,<0,inf,-inf,NaN,1e-300,1e300, fraction of dt_total, 1e-12..1e8}, optional stop step, optional shape-changing postProcess), "
                    "alone or inside Coupler, 1-3 consecutive solve calls of duration 10^[-6,6] (the later calls with other step fractions in one case of two), t0 in {0,[0,1e4]}, minDtFrac in [1e-3,0.5], maxDtFrac in [minDtFrac,1], both iterators; "
                    "non-trivial: a degenerate proposal consumed and >=3 steps, or a coupling, or a stop request"),
    ]
