"""C01 — precipitation conserves solute between matrix and precipitates."""
from hypothesis import strategies as st

from ..core import Clause, Out
from .. import harness_kwn as H, scen
from ..massmoment import StepOracle

LEVEL = "exploration"
ASSUMPTIONS = [
    "default infinite-precipitate-diffusion mode (the only mode in which precipitate content is defined as sum of volume x interfacial composition)",
    "analytic toy thermodynamics (vk/toy.py) with stoichiometric precipitates: the oracle uses the backend's precipitate composition, not the model's cached table",
    "grain-edge/corner volume factors are taken from the model (their identities are checked in C14); bulk, dislocation and grain-boundary factors from closed forms",
    "runs are bounded by a step cap enforced inside a custom iterator; truncated runs are judged on the steps they completed",
]


def _check(sc, mass=True, moments=False):
    out = Out()
    oracle = StepOracle(sc, out, do_mass=mass, do_moments=moments)

    def grid_watch(model, snap):
        for p, pb in enumerate(model.PBM):
            if len(pb.PSDbounds) != len(snap["bounds"][p]):
                oracle.flags.add("grid_extended" if len(pb.PSDbounds) > len(snap["bounds"][p]) and pb.PSDbounds[1] - pb.PSDbounds[0] == snap["bounds"][p][1] - snap["bounds"][p][0] else "grid_remeshed")
            elif pb.PSDbounds[-1] != snap["bounds"][p][-1]:
                oracle.flags.add("grid_remeshed")

    res = H.run(sc, callbacks=[oracle, grid_watch])
    oracle.finish(res)
    rc = sc.get("reconfigure")
    if rc and not out.viol:
        # the same model used again: an interfacial or grain-boundary energy is changed, the results are reset and the run repeated;
        # the second run is judged like a first one, against the scenario with the new energies
        import copy
        sc2 = copy.deepcopy(sc)
        sc2.pop("reconfigure", None)
        m = res["model"]
        m.clearCouplingModels()
        if "gbe" in rc:
            m.setGrainBoundaryEnergy(rc["gbe"])
            sc2["gbe"] = rc["gbe"]
        for name, gam in rc.get("gamma", {}).items():
            m.setInterfacialEnergy(gam, phase=name)
            for p in sc2["phases"]:
                if p["name"] == name:
                    p["gamma"] = gam
        if sc.get("VmB_calls"):
            # molar volumes set between the solve calls of the first run stay on the model: the second run starts from the scenario's values again
            for p in sc2["phases"]:
                m.setVolumeBeta(p["VmB"][0], p["VmB"][1], p["VmB"][2], phase=p["name"])
        m.reset()
        oracle2 = StepOracle(sc2, out, do_mass=mass, do_moments=moments)
        oracle2.flags = oracle.flags
        oracle2.flags.add("reconfigured_and_rerun")
        res2 = H.run(sc2, callbacks=[oracle2, grid_watch], model=m, therm=res["therm"])
        oracle2.finish(res2)
    return out


def check_toy_binary(sc):
    return _check(sc, mass=True, moments=False)


def check_clamp(case):
    """The one permitted deviation: a state whose precipitates hold more solute than the alloy contains (what an over-shooting
    step hands to the model) must be recorded with the matrix composition clamped to the configured minimum - not to 0, not
    left negative.  The state is produced by scaling the distribution a normal run has reached and handing it to the model
    through the calls the solver makes for one explicit step (preProcess, getdXdt at the current state, postProcess with the new one)."""
    import numpy as np
    out = Out()
    sc = case["sc"]
    res = H.run(sc)
    m = res["model"]
    pd = m.pData
    n = pd.n
    # content of the distribution the model holds now (classes removed after the last record no longer count)
    pp, pb = m.precipitateParameters[0], m.PBM[0]
    ratio = m.matrixParameters.volume.Vm / pp.volume.Vm
    psd = np.array(pb.PSD, dtype=float)
    psd[: int(m.RdrivingForceIndex[0]) + 1] = 0
    psd[pb.PSDsize < m.constraints.minRadius] = 0
    fv = float(ratio * pp.nucleation.volumeFactor * np.sum(psd * pb.PSDsize ** 3))
    fc = fv * float(sc["phases"][0]["xb"])
    x0 = float(np.atleast_1d(pd.composition[0])[0])
    if not (fc > 0 and 0 < fv < 0.5):
        out.label("no_precipitates_to_scale")
        return out
    s = case["over"] * x0 / fc                   # precipitate content becomes over * x0 > x0
    if fv * s >= 0.95:
        out.label("scaled_fraction_too_large")
        return out
    x = [np.array(pb.PSD, dtype=float) * s for pb in m.PBM]
    t_next = float(pd.time[n]) * (1 + 1e-6) + 1e-9
    import io, sys
    so = sys.stdout
    sys.stdout = io.StringIO()
    try:
        # the solver's protocol for one explicit step: preProcess, derivative at the current state, postProcess with the new state
        m.preProcess()
        m.getdXdt(float(pd.time[n]), [np.array(pb_.PSD, dtype=float) for pb_ in m.PBM])
        m.postProcess(t_next, x)
    finally:
        sys.stdout = so
    got = float(np.atleast_1d(m.pData.composition[m.pData.n])[0])
    minc = float((sc.get("constraints") or {}).get("minComposition", 0))
    out.label("clamp_forced", "minComposition_%s" % ("set" if minc else "default"))
    if got != minc:
        out.fail("clamp_value", "precipitates scaled to hold %.3f x the alloy content: recorded matrix composition %r, configured minimum composition %r" % (case["over"], got, minc))
    out.nt(minc > 0)
    return out


@st.composite
def _clamp_case(draw):
    sc = draw(scen.toy_binary_scenario(cap=120, max_phases=1, undersat=False, allow_profile=False))
    c = dict(sc.get("constraints") or {})
    if draw(st.integers(0, 3)) > 0:
        c["minComposition"] = 10 ** draw(st.floats(-12, -6))
    sc["constraints"] = c
    return {"sc": sc, "over": draw(st.floats(1.01, 3.0))}


def pred_sentinel(case, v):
    """All size classes of a phase are unstable (interfacial-composition sentinel -1 everywhere) while nuclei are
    placed in its last class: the sentinel is then used as the precipitate composition.  Envelope: the deviation
    cannot exceed twice the volume fraction held by such classes."""
    d = v.get("data", {})
    sv, dev = d.get("sentinel_vf"), d.get("dev")
    return isinstance(sv, (int, float)) and isinstance(dev, (int, float)) and sv > 0 and dev <= 2.5 * sv


def pred_zero_table(case, v):
    """Multicomponent model, RK4-type intermediate stage with a depleted matrix (negative driving force): the growth-rate
    routine zeroes the interfacial-composition table although the distribution still holds particles, and the mass balance of
    the accepted step then counts their solute as 0.  Envelope: the missing content cannot exceed the fraction held by such phases."""
    d = v.get("data", {})
    zv, dev = d.get("zero_vf"), d.get("dev")
    return isinstance(zv, (int, float)) and isinstance(dev, (int, float)) and zv > 0 and dev <= 1.05 * zv


PREDICATES = {"sentinel_composition_in_populated_class": pred_sentinel, "composition_table_zeroed_by_transient_stage": pred_zero_table}


def clauses():
    return [
        Clause("clamp", _clamp_case, check_clamp, quick=40, thorough=600, shrink=False,
               rule="generator: toy binary single-phase run (cap 120 steps), then the reached distribution scaled so that the precipitates hold 1.01-3 times the alloy content and handed to the model as the new state of one explicit step (preProcess, getdXdt, postProcess); minimum composition configured (3 in 4) or default; "
                    "oracle: the recorded matrix composition is exactly the configured minimum (the documented clamp); non-trivial: a non-default minimum"),
        Clause("toy_binary", lambda: scen.toy_binary_scenario(cap=400, allow_elastic=True, allow_kbeta=True, allow_param_calls=True), check_toy_binary, quick=240, thorough=4000, shrink=False,
               rule="generator: toy binary scenarios (1-3 phases, stoichiometric or (1 in 3) with a precipitate composition that depends on the Gibbs-Thomson energy and is then taken per class from the model's table snapshot, mean of the class edges; alloy inside/outside the two-phase field, T constant / break points / function, gamma, V_alpha/V_beta in [0.5,2] given as Vm/Va/a, five site types, four shapes, constant strain energy, PBM grid, adaptive on/off, constraint toggles, Euler/RK4, 1-3 solve calls, cap 400 steps); "
                    "1 multi-call case in 5 sets the molar volume of a precipitate phase again between two solve calls (the oracle follows the scenario); oracle per accepted step: x0 = (1-sum f) x_matrix + sum_p ratio_p F_p sum_i n_i R_i^3 x_beta; non-trivial: total precipitate fraction > 1e-6 on >= 10 steps"),
        Clause("toy_multi", lambda: scen.toy_multi_scenario(cap=250, allow_shapes=True, allow_param_calls=True), check_toy_binary, quick=120, thorough=2000, shrink=False,
               rule="generator: toy ternary scenarios (1-2 stoichiometric phases with a solubility product, both solutes balanced); same oracle for every solute; non-trivial as above"),
        Clause("real_db", lambda: scen.real_scenario(cap=100), check_toy_binary, quick=24, thorough=300, shrink=False,
               rule="generator: Al-Zr / Al3Zr (binary, stoichiometric, bulk / dislocation / grain-boundary sites) and Ni-Al-Cr gamma prime (ternary, non-stoichiometric, optional constant strain energy) on the shipped databases, constant temperature or a cooling ramp, both iterators, 1-2 solve calls, cap 100 steps; same oracle (for gamma prime the per-class precipitate composition is the model's table snapshot)"),
    ]
