"""C01 — precipitation conserves solute between matrix and precipitates."""
from hypothesis import strategies as st

from ..core import Clause, Out
from .. import harness_kwn as H, scen
from ..massmoment import StepOracle

LEVEL = "exploration"
ASSUMPTIONS = [
    "default infinite-precipitate-diffusion mode (the only mode in which precipitate content is defined as sum of volume x interfacial composition)",
    "analytic toy thermodynamics (vk/toy.py) with stoichiometric precipitates: the oracle uses the backend's precipitate composition, not the model's cached table",
    "grain-edge/corner volume factors are taken from the model (their identities are checked in C14); bulk, dislocation and grain-boundary factors from closed forms",
    "runs are bounded by a step cap enforced inside a custom iterator; truncated runs are judged on the steps they completed",
]


def _check(sc, mass=True, moments=False):
    out = Out()
    oracle = StepOracle(sc, out, do_mass=mass, do_moments=moments)

    def grid_watch(model, snap):
        for p, pb in enumerate(model.PBM):
            if len(pb.PSDbounds) != len(snap["bounds"][p]):
                oracle.flags.add("grid_extended" if len(pb.PSDbounds) > len(snap["bounds"][p]) and pb.PSDbounds[1] - pb.PSDbounds[0] == snap["bounds"][p][1] - snap["bounds"][p][0] else "grid_remeshed")
            elif pb.PSDbounds[-1] != snap["bounds"][p][-1]:
                oracle.flags.add("grid_remeshed")

    res = H.run(sc, callbacks=[oracle, grid_watch])
    oracle.finish(res)
    return out


def check_toy_binary(sc):
    return _check(sc, mass=True, moments=False)


def pred_sentinel(case, v):
    """All size classes of a phase are unstable (interfacial-composition sentinel -1 everywhere) while nuclei are
    placed in its last class: the sentinel is then used as the precipitate composition.  Envelope: the deviation
    cannot exceed twice the volume fraction held by such classes."""
    d = v.get("data", {})
    sv, dev = d.get("sentinel_vf"), d.get("dev")
    return isinstance(sv, (int, float)) and isinstance(dev, (int, float)) and sv > 0 and dev <= 2.5 * sv


def pred_zero_table(case, v):
    """Multicomponent model, RK4-type intermediate stage with a depleted matrix (negative driving force): the growth-rate
    routine zeroes the interfacial-composition table although the distribution still holds particles, and the mass balance of
    the accepted step then counts their solute as 0.  Envelope: the missing content cannot exceed the fraction held by such phases."""
    d = v.get("data", {})
    zv, dev = d.get("zero_vf"), d.get("dev")
    return isinstance(zv, (int, float)) and isinstance(dev, (int, float)) and zv > 0 and dev <= 1.05 * zv


PREDICATES = {"sentinel_composition_in_populated_class": pred_sentinel, "composition_table_zeroed_by_transient_stage": pred_zero_table}


def clauses():
    return [
        Clause("toy_binary", lambda: scen.toy_binary_scenario(cap=400, allow_elastic=True, allow_kbeta=True), check_toy_binary, quick=240, thorough=4000, shrink=False,
               rule="generator: toy binary scenarios (1-3 phases, stoichiometric or (1 in 3) with a precipitate composition that depends on the Gibbs-Thomson energy and is then taken per class from the model's table snapshot, mean of the class edges; alloy inside/outside the two-phase field, T constant / break points / function, gamma, V_alpha/V_beta in [0.5,2] given as Vm/Va/a, five site types, four shapes, constant strain energy, PBM grid, adaptive on/off, constraint toggles, Euler/RK4, 1-3 solve calls, cap 400 steps); "
                    "oracle per accepted step: x0 = (1-sum f) x_matrix + sum_p ratio_p F_p sum_i n_i R_i^3 x_beta; non-trivial: total precipitate fraction > 1e-6 on >= 10 steps"),
        Clause("toy_multi", lambda: scen.toy_multi_scenario(cap=250), check_toy_binary, quick=120, thorough=2000, shrink=False,
               rule="generator: toy ternary scenarios (1-2 stoichiometric phases with a solubility product, both solutes balanced); same oracle for every solute; non-trivial as above"),
        Clause("real_db", lambda: scen.real_scenario(cap=100), check_toy_binary, quick=24, thorough=300, shrink=False,
               rule="generator: Al-Zr / Al3Zr (binary, stoichiometric, bulk / dislocation / grain-boundary sites) and Ni-Al-Cr gamma prime (ternary, non-stoichiometric, optional constant strain energy) on the shipped databases, constant temperature or a cooling ramp, both iterators, 1-2 solve calls, cap 100 steps; same oracle (for gamma prime the per-class precipitate composition is the model's table snapshot)"),
    ]
