"""C12 — driving force, phase boundary and critical radius agree with each other."""
import io
import sys

import numpy as np
from hypothesis import strategies as st

from ..core import Clause, Out
from .. import harness_kwn as H, scen, realdb

LEVEL = "exploration"
ASSUMPTIONS = [
    "binary query clause on the shipped Al-Zr database (stoichiometric Al3Zr): agreement is judged up to the documented 1 J/mol offset (tolerance 1e-3*g + 2.5 J/mol between methods, which may carry the offset with either sign)",
    "the 'curvature' driving-force method is documented as a small-supersaturation linearisation: only its sign and its limit (ratio within 10% at 5% supersaturation) are demanded",
    "model clause: growth sign is judged on class boundaries further than one class width (plus 1e-6 relative) from the critical radius, for phases with positive driving force and unclamped critical radius; classes at or below the driving-force index are not judged",
]


def check_binary_queries(case):
    out = Out()
    T = case["T"]
    th = realdb.get("alzr:tangent")
    so = sys.stdout
    sys.stdout = io.StringIO()
    try:
        g = np.array(sorted(case["g"]), dtype=float)
        g_in = g.copy()
        xa, xb = th.getInterfacialComposition(T, g_in)
        if g_in.tobytes() != g.tobytes():
            out.fail("argument_modified", "getInterfacialComposition modified the Gibbs-Thomson array passed to it (first entry %r -> %r)" % (g[0], g_in[0]))
        xa, xb = np.atleast_1d(xa).astype(float), np.atleast_1d(xb).astype(float)
        valid = xa != -1
        # sentinel monotone in g
        if np.any(valid[1:] & ~valid[:-1]):
            i = int(np.argmax(valid[1:] & ~valid[:-1]))
            out.fail("sentinel_not_monotone", "T=%r: precipitate reported unstable at g=%r but stable at the larger g=%r" % (T, g[i], g[i + 1]))
        if np.any((xb == -1) != (xa == -1)):
            out.fail("sentinel_inconsistent", "matrix and precipitate sentinels disagree")
        xv, gv = xa[valid], g[valid]
        if len(xv) >= 2 and np.any(np.diff(xv) < -1e-9 * xv[:-1]):
            i = int(np.argmin(np.diff(xv)))
            out.fail("interfacial_composition_not_monotone", "T=%r: x_alpha(g=%r)=%r > x_alpha(g=%r)=%r" % (T, gv[i], xv[i], gv[i + 1], xv[i + 1]))
        if len(xv):
            dg, _ = th.getDrivingForce(xv, np.full(len(xv), T), removeCache=True)
            dg = np.atleast_1d(dg).astype(float)
            bad = np.abs(dg - gv) > 1e-3 * gv + 1.05
            if np.any(bad):
                i = int(np.argmax(bad))
                out.fail("driving_force_at_interface", "T=%r: x_alpha(g=%r) = %r but the driving force there is %r" % (T, gv[i], xv[i], dg[i]), dev=float(abs(dg[i] - gv[i])))
        # the pairwise array form: (T_i, g_i) pairs with temperatures in any order (cooling sequences, repeats)
        pairs = case.get("pairs") or []
        if len(pairs) >= 2:
            Tp = np.array([q[0] for q in pairs], dtype=float)
            gp = np.array([q[1] for q in pairs], dtype=float)
            Tp0, gp0 = Tp.copy(), gp.copy()
            xp, xpb = th.getInterfacialComposition(Tp, gp)
            if Tp.tobytes() != Tp0.tobytes() or gp.tobytes() != gp0.tobytes():
                out.fail("argument_modified", "getInterfacialComposition modified the temperature / Gibbs-Thomson arrays passed to it")
            xp = np.atleast_1d(xp).astype(float)
            if xp.shape != Tp0.shape:
                out.fail("driving_force_at_interface", "pairwise call with %d (T, g) pairs returned %r values" % (len(Tp0), xp.shape), array_form=True)
            else:
                okp = xp != -1
                if np.any(okp):
                    dgp, _ = th.getDrivingForce(xp[okp], Tp0[okp], removeCache=True)
                    dgp = np.atleast_1d(dgp).astype(float)
                    badp = np.abs(dgp - gp0[okp]) > 1e-3 * gp0[okp] + 1.05
                    if np.any(badp):
                        i = int(np.argmax(badp))
                        out.fail("driving_force_at_interface", "pairwise array call T=%r g=%r: element %d: x_alpha = %r but the driving force at (x_alpha, T=%r) is %r instead of %r"
                                 % (Tp0.tolist(), gp0.tolist(), int(np.nonzero(okp)[0][i]), xp[okp][i], Tp0[okp][i], dgp[i], gp0[okp][i]), dev=float(abs(dgp[i] - gp0[okp][i])), array_form=True)
                out.label("pairwise_array_form" + ("_unsorted" if np.any(np.diff(Tp0) < 0) or len(set(Tp0.tolist())) < len(Tp0) else ""))
        xeq, _ = th.getInterfacialComposition(T, 0)
        xeq = float(xeq)
        if xeq > 0:
            xs = np.array(sorted(xeq * (1 + s) for s in case["super"]), dtype=float)
            xs = xs[(xs > 0) & (xs < 0.2)]
            res = {}
            for m in ("tangent", "approximate", "sampling", "curvature"):
                thm = realdb.get("alzr:" + m)
                d, _ = thm.getDrivingForce(xs.copy(), np.full(len(xs), T), removeCache=True)
                res[m] = np.atleast_1d(d).astype(float)
            rel = xs / xeq - 1
            for m, d in res.items():
                away = np.abs(rel) >= 0.05
                wrong = away & (np.sign(d) != np.sign(rel))
                if np.any(wrong):
                    i = int(np.argmax(wrong))
                    out.fail("sign_at_solvus", "T=%r method %s: x/x_eq - 1 = %+.3g but driving force %r" % (T, m, rel[i], d[i]), method=m)
            dt = res["tangent"]
            if len(dt) >= 2 and np.any(np.diff(dt) < -1e-6):
                i = int(np.argmin(np.diff(dt)))
                out.fail("driving_force_not_increasing", "T=%r: dG(x=%r)=%r > dG(x=%r)=%r" % (T, xs[i], dt[i], xs[i + 1], dt[i + 1]))
            for m in ("approximate", "sampling"):
                bad = np.abs(res[m] - dt) > 2.5 + 1e-6 * np.abs(dt)
                if np.any(bad):
                    i = int(np.argmax(bad))
                    out.fail("methods_disagree", "T=%r x=%r: tangent %r, %s %r" % (T, xs[i], dt[i], m, res[m][i]), method=m)
            near = (rel > 0.04) & (rel < 0.06)
            if np.any(near):
                r = res["curvature"][near] / dt[near]
                if np.any(np.abs(r - 1) > 0.1):
                    out.fail("curvature_limit", "T=%r: curvature/tangent driving force ratio %r at 5%% supersaturation" % (T, r.tolist()))
    finally:
        sys.stdout = so
    out.label("T_%d" % (int(T) // 100 * 100))
    if np.any(~valid):
        out.label("sentinel_seen")
    out.nt(bool(np.sum(valid) >= 2))
    return out


class _RcritWatch:
    def __init__(self, sc, out):
        self.sc, self.out = sc, out
        self.both_sides = 0
        self.judged = 0
        self.done = False

    def __call__(self, model, snap):
        if self.done:
            return
        pd = model.pData
        n = pd.n
        for p in range(len(self.sc["phases"])):
            dG = pd.drivingForce[n, p]
            Rc = pd.Rcrit[n, p]
            if not (dG > 0) or not (Rc > 0):
                continue
            Rmin = model.precipitateParameters[p].Rmin
            if Rc <= Rmin * (1 + 1e-9):
                continue
            b = np.asarray(model.PBM[p].PSDbounds, dtype=float)
            g = np.asarray(model.growth[p], dtype=float)
            if len(g) != len(b) or not np.all(np.isfinite(g)):
                continue
            dR = b[1] - b[0]
            lo = int(model.RdrivingForceIndex[p]) + 1 if len(np.atleast_1d(model.RdrivingForceIndex)) > p else 0
            idx = np.arange(len(b))
            above = (b > Rc * (1 + 1e-6) + dR) & (idx >= lo)
            below = (b < Rc * (1 - 1e-6) - dR) & (idx >= lo)
            self.judged += 1
            if np.any(above) and np.any(below):
                self.both_sides += 1
            wrong_above = above & (g <= 0)
            wrong_below = below & (g >= 0)
            if np.any(wrong_above) or np.any(wrong_below):
                k = int(np.argmax(wrong_above | wrong_below))
                # locate the radius at which growth actually changes sign
                sgn = np.sign(g[lo:])
                ch = np.where(sgn[:-1] * sgn[1:] < 0)[0]
                r0 = float(b[lo:][ch[0]]) if len(ch) else None
                self.out.fail("growth_sign_vs_critical_radius", "step %d phase %d: critical radius %.4e but the class boundary at %.4e %s (growth changes sign near %r); driving force %r" % (n, p, Rc, b[k], "shrinks" if g[k] <= 0 else "grows", r0, dG),
                              strain=bool(self.sc["phases"][p].get("strain")), system=self.sc["system"])
                self.done = True
                return


class _RampWatch:
    """Non-isothermal variant: the binary model keeps its interfacial-composition table until the temperature has
    drifted by more than constraints.maxTempChange, so the growth sign is judged against the range of critical radii
    over temperatures within that documented drift of the current one."""

    def __init__(self, sc, out, therm):
        self.sc, self.out, self.therm = sc, out, therm
        self.both_sides = 0
        self.cooled = 0
        self.done = False
        self.Tmax = None

    def __call__(self, model, snap):
        if self.done:
            return
        pd = model.pData
        n = pd.n
        T = float(pd.temperature[n])
        self.Tmax = T if self.Tmax is None else max(self.Tmax, T)
        dTmax = float(model.constraints.maxTempChange) * 1.001 + 1e-9
        x = np.array(pd.composition[n], dtype=float)
        for p, ph in enumerate(self.sc["phases"]):
            dG = pd.drivingForce[n, p]
            Rc = pd.Rcrit[n, p]
            if not (dG > 0) or not (Rc > 0):
                continue
            Rmin = model.precipitateParameters[p].Rmin
            if Rc <= Rmin * (1 + 1e-9):
                continue
            b = np.asarray(model.PBM[p].PSDbounds, dtype=float)
            g = np.asarray(model.growth[p], dtype=float)
            if len(g) != len(b) or not np.all(np.isfinite(g)):
                continue
            xq = x if self.sc["system"] == "toy_multi" else x[0]
            d0 = float(self.therm.getDrivingForce(xq, T, precPhase=ph["name"])[0])
            if not d0 > 0:
                continue
            rcs = [Rc]
            for Tq in (T - dTmax, T + dTmax):
                dq = float(self.therm.getDrivingForce(xq, Tq, precPhase=ph["name"])[0])
                rcs.append(Rc * d0 / dq if dq > 0 else np.inf)
            rlo, rhi = min(rcs), max(rcs)
            dR = b[1] - b[0]
            lo = int(model.RdrivingForceIndex[p]) + 1 if len(np.atleast_1d(model.RdrivingForceIndex)) > p else 0
            idx = np.arange(len(b))
            above = (b > rhi * (1 + 1e-6) + dR) & (idx >= lo) if np.isfinite(rhi) else np.zeros(len(b), dtype=bool)
            below = (b < rlo * (1 - 1e-6) - dR) & (idx >= lo)
            if np.any(above) and np.any(below):
                self.both_sides += 1
                if T < self.Tmax - 2 * dTmax:
                    self.cooled += 1
            wrong = (above & (g <= 0)) | (below & (g >= 0))
            if np.any(wrong):
                k = int(np.argmax(wrong))
                self.out.fail("growth_sign_vs_critical_radius_nonisothermal", "step %d phase %d at T=%.3f K (highest so far %.3f): critical radius %.4e (range %.4e..%.4e over +-%.3g K) but the class boundary at %.4e %s"
                              % (n, p, T, self.Tmax, Rc, rlo, rhi, dTmax, b[k], "shrinks" if g[k] <= 0 else "grows"), system=self.sc["system"])
                self.done = True
                return


def check_model_ramp(sc):
    out = Out()
    therm = H.build_therm(sc)
    w = _RampWatch(sc, out, therm)
    so = sys.stdout
    sys.stdout = io.StringIO()
    try:
        H.run(sc, callbacks=[w], therm=therm)
    finally:
        sys.stdout = so
    Ts = sc["T"][2]
    out.label(sc["system"], sc["iterator"], "net_cooling" if Ts[-1] < Ts[0] else "net_heating")
    if w.cooled:
        out.label("judged_after_cooling_more_than_2dT")
    out.nt(w.both_sides >= 5)
    return out


def check_model(sc):
    out = Out()
    w = _RcritWatch(sc, out)
    so = sys.stdout
    sys.stdout = io.StringIO()
    try:
        res = H.run(sc, callbacks=[w])
        rc = sc.get("reconfigure")
        if rc and not w.done:
            # the same model re-used: an interfacial or grain-boundary energy is changed, the results are reset and the run repeated
            m = res["model"]
            m.clearCouplingModels()
            if "gbe" in rc:
                m.setGrainBoundaryEnergy(rc["gbe"])
            for name, gam in rc.get("gamma", {}).items():
                m.setInterfacialEnergy(gam, phase=name)
            m.reset()
            w2 = _RcritWatch(sc, out)
            H.run(sc, callbacks=[w2], model=m, therm=res["therm"])
            w.both_sides += w2.both_sides
            out.label("reconfigured_and_rerun")
    finally:
        sys.stdout = so
    out.label(sc["system"], sc["iterator"])
    if sc.get("T_calls"):
        out.label("temperature_set_between_solve_calls")
    if any(p.get("strain") for p in sc["phases"]):
        out.label("strain_energy")
    if any(p.get("shape", "sphere") != "sphere" for p in sc["phases"]):
        out.label("non_spherical")
    out.nt(w.both_sides >= 5)
    return out


@st.composite
def _query_case(draw):
    ng = draw(st.integers(2, 7))
    g = [0.0 if draw(st.integers(0, 5)) == 5 else 10 ** draw(st.floats(0, 5)) for _ in range(ng)]
    sup = [draw(st.sampled_from([-0.5, -0.2, -0.05, 0.05, 0.05, 0.3, 1.0, 5.0, 20.0])) for _ in range(draw(st.integers(2, 5)))] + [10 ** draw(st.floats(-1.3, 1.5))]
    case = {"T": draw(st.floats(500.0, 900.0)), "g": g, "super": sup}
    if draw(st.booleans()):
        Ts = [draw(st.floats(500.0, 900.0)) for _ in range(draw(st.integers(1, 3)))]
        case["pairs"] = [[draw(st.sampled_from(Ts)), 10 ** draw(st.floats(0.0, 4.0))] for _ in range(draw(st.integers(2, 5)))]
        if len(Ts) >= 2 and draw(st.booleans()):
            # a cycle: equal first and last temperature with a different one in between
            case["pairs"] = [[Ts[0], case["pairs"][0][1]]] + [[Ts[1], 10 ** draw(st.floats(0.0, 4.0))]] + [[Ts[0], 10 ** draw(st.floats(0.0, 4.0))]]
    return case


@st.composite
def _model_case(draw):
    k = draw(st.integers(0, 11))
    if k == 11:
        sc = draw(scen.real_scenario(cap=80))
        sc["T"] = ["const", sc["T"][1] if sc["T"][0] == "const" else sc["T"][2][0]]
        return sc
    if k % 3 == 2:
        sc = draw(scen.toy_multi_scenario(cap=200, allow_profile=False, allow_shapes=True, strain_odds=1))
    else:
        sc = draw(scen.toy_binary_scenario(cap=250, max_phases=2, undersat=False, allow_profile=False, strain_odds=1))
    if len(sc["durations"]) > 1 and draw(st.integers(0, 2)) == 0:
        # ageing steps done by hand: a new constant temperature handed to the setter between two solve calls
        T = sc["T"][1]
        calls = []
        for _ in sc["durations"][1:]:
            T = float(np.clip(T + draw(st.floats(3.0, 60.0)) * draw(st.sampled_from([1.0, -1.0, -1.0])), 350.0, 1300.0))
            calls.append(["const", T])
        sc["T_calls"] = calls
    if draw(st.integers(0, 2)) == 2:
        # second run on the same model after changing an energy (kept admissible for boundary-type sites: k = gbe/(2 gamma) below its limit)
        rc = {}
        gbs = [p for p in sc["phases"] if p["site"] in scen.KMAX]
        if gbs and draw(st.booleans()):
            rc["gbe"] = min(2 * draw(st.floats(0.0, 0.95)) * scen.KMAX[p["site"]] * p["gamma"] for p in gbs)
        else:
            p = sc["phases"][draw(st.integers(0, len(sc["phases"]) - 1))]
            gam = p["gamma"] * draw(st.floats(0.7, 1.5))
            if p["site"] in scen.KMAX and "gbe" in sc:
                gam = max(gam, sc["gbe"] / (2 * 0.95 * scen.KMAX[p["site"]]))
            rc["gamma"] = {p["name"]: float(gam)}
        sc["reconfigure"] = rc
    return sc


@st.composite
def _ramp_case(draw):
    if draw(st.integers(0, 3)) == 3:
        sc = draw(scen.toy_multi_scenario(cap=200, allow_profile=False))
    else:
        sc = draw(scen.toy_binary_scenario(cap=250, max_phases=2, undersat=False, allow_profile=False, allow_shapes=False))
    for p in sc["phases"]:
        p.pop("strain", None)
        p["shape"] = "sphere"
    T0 = sc["T"][1]
    total = sum(sc["durations"])
    n = draw(st.integers(1, 3))
    hrs, Ts = [0.0], [T0]
    sign = draw(st.sampled_from([-1.0, -1.0, 1.0]))
    for i in range(n):
        hrs.append(hrs[-1] + total / 3600 / n)
        Ts.append(float(np.clip(Ts[-1] + sign * draw(st.floats(2.0, 40.0)), 350.0, 1400.0)))
        if draw(st.integers(0, 2)) == 2:
            sign = -sign
    sc["T"] = [draw(st.sampled_from(["array", "func"])), hrs, Ts]
    return sc


def pred_multi_strain(case, v):
    d = v.get("data", {})
    return d.get("system") == "toy_multi" and bool(d.get("strain"))


PREDICATES = {"multicomponent_strain_energy_counted_twice": pred_multi_strain}


def clauses():
    cl = [
        Clause("binary_queries", _query_case, check_binary_queries, quick=160, thorough=6000, shrink=False,
               rule="generator: Al-Zr, T in [500,900] K, 2-7 Gibbs-Thomson energies in {0, 1..1e5} J/mol, 3-6 relative supersaturations in [-0.5, 30], optionally 2-5 (T, g) pairs over 1-3 temperatures in any order for the pairwise array form; "
                    "oracle: dG(x_alpha(T,g),T) = g, x_alpha monotone in g, sentinel monotone, sign change at the planar solvus, dG increasing in x, four methods agree in sign, three in value (offset), curvature limit; non-trivial: >= 2 stable Gibbs-Thomson points"),
        Clause("model_rcrit", _model_case, check_model, quick=160, thorough=3000, shrink=False,
               rule="generator: (1 in 12: Al-Zr / Ni-Al-Cr on the shipped databases) toy binary (1-2 phases, all site types and shapes, constant strain energy in every second phase) and toy ternary scenarios (all four shapes, strain energy likewise) at constant temperature, 1 in 3 followed by a change of an interfacial or grain-boundary energy, reset() and a second run on the same model, 1 multi-call case in 3 with a new constant temperature handed to the setter between solve calls; observer after every step: boundaries beyond one class width above (below) the reported critical radius grow (shrink); non-trivial: >= 5 steps with judged boundaries on both sides"),
        Clause("model_rcrit_ramp", _ramp_case, check_model_ramp, quick=96, thorough=2000, shrink=False,
               rule="generator: toy binary (3 in 4) and toy ternary scenarios, spherical precipitates without strain energy, temperature ramps of 1-3 segments of 2-40 K each (2 in 3 start by cooling; direction may reverse); "
                    "observer after every step: boundaries beyond one class width above (below) the largest (smallest) critical radius over temperatures within constraints.maxTempChange of the current one grow (shrink); non-trivial: >= 5 judged steps with boundaries on both sides"),
    ]
    return cl
