"""C20 — saved files and surrogates reproduce what they were made from."""
import io
import math
import os
import shutil
import sys
import tempfile

import numpy as np
from hypothesis import strategies as st

from ..core import Clause, Out
from .. import harness_kwn as H, harness_diff as HD, scen, toy

LEVEL = "exploration"
ASSUMPTIONS = [
    "precipitation/diffusion models run on the analytic toy / stub backends; files are written to a per-case temporary directory that is removed afterwards",
    "the per-step PSD record of a precipitation model is persisted by its own documented pair saveRecordedPSD/loadRecordedPSD and is checked through that pair",
    "a trained surrogate is queried at exactly the stored training inputs; reproduction is judged at 1e-6 of the output range (RBF interpolation conditioning)",
]
ATTRS = ["time", "temperature", "composition", "xEqAlpha", "xEqBeta", "drivingForce", "impingement", "Gcrit", "Rcrit", "nucRate", "precipitateDensity", "Rnuc", "Ravg", "ARavg", "volFrac", "fconc"]


def _same(a, b):
    a, b = np.asarray(a), np.asarray(b)
    return a.shape == b.shape and a.dtype.kind == b.dtype.kind and np.array_equal(a, b, equal_nan=True)


def check_kwn(case):
    out = Out()
    sc = case["sc"]
    tmp = tempfile.mkdtemp(prefix="vk_c20_")
    so = sys.stdout
    sys.stdout = io.StringIO()
    try:
        model, therm = H.build_model(sc)
        tap = H.StepTap(model, sc["iterator"], sc["cap"])
        saves = 0
        mid_saves = 0
        ncalls = len(sc["durations"])
        for k, dur in enumerate(sc["durations"]):
            try:
                model.solve(dur, solverType=tap, minDtFrac=sc.get("minDtFrac", 1e-8))
            except H.StepCap:
                pass
            if k in case["save_after"] or k == ncalls - 1:
                fn = os.path.join(tmp, "m%d" % k)
                model.save(fn)
                saves += 1
                if k < ncalls - 1:
                    mid_saves += 1
                m2, _ = H.build_model(sc)
                try:
                    m2.load(fn)
                except Exception as e:
                    sys.stdout = so
                    out.fail("load_raised:%s" % type(e).__name__, "loading the file saved after solve call %d raised %s: %s" % (k, type(e).__name__, e))
                    return out
                for a in ATTRS:
                    if not _same(getattr(model.pData, a), getattr(m2.pData, a)):
                        out.fail("history_not_reproduced", "after load (saved after call %d): pData.%s differs (shape %r vs %r)" % (k, a, np.shape(getattr(model.pData, a)), np.shape(getattr(m2.pData, a))), attr=a)
                        break
                if m2.pData.n != model.pData.n:
                    out.fail("history_not_reproduced", "step counter differs after load: %r vs %r" % (m2.pData.n, model.pData.n), attr="n")
                for p in range(len(sc["phases"])):
                    A, B = model.PBM[p], m2.PBM[p]
                    for nm in ("PSD", "PSDbounds", "PSDsize"):
                        if not _same(getattr(A, nm), getattr(B, nm)):
                            out.fail("distribution_not_reproduced", "phase %d %s differs after load" % (p, nm), attr=nm)
                    if (A.min, A.max, A.bins) != (B.min, B.max, B.bins):
                        out.fail("distribution_not_reproduced", "phase %d grid scalars differ after load: %r vs %r" % (p, (A.min, A.max, A.bins), (B.min, B.max, B.bins)), attr="grid")
                # recorded PSD through its own pair
                for p, ph in enumerate(sc["phases"]):
                    if ph["name"] in sc.get("record_psd", []):
                        fr = os.path.join(tmp, "psd%d_%d" % (k, p))
                        model.saveRecordedPSD(fr, phase=ph["name"])
                        from kawin.precipitation.PopulationBalance import PopulationBalanceModel
                        q = PopulationBalanceModel()
                        q.loadRecordedPSD(fr + ".npz")
                        for nm in ("_recordedTime", "_recordedBins", "_recordedPSD"):
                            if not _same(getattr(model.PBM[p], nm), getattr(q, nm)):
                                out.fail("psd_record_not_reproduced", "phase %d %s differs after saveRecordedPSD/loadRecordedPSD" % (p, nm))
                # the loaded model continues exactly like the original (only checked on the last save to bound the cost)
    finally:
        sys.stdout = so
        shutil.rmtree(tmp, ignore_errors=True)
    out.label("phases_%d" % len(sc["phases"]), sc["iterator"], "saves_%d" % saves)
    if sc.get("record_psd"):
        out.label("psd_recording")
    out.nt(mid_saves > 0 and tap.steps >= 5)
    return out


def check_diff(case):
    out = Out()
    sc = case["sc"]
    tmp = tempfile.mkdtemp(prefix="vk_c20_")
    so = sys.stdout
    sys.stdout = io.StringIO()
    try:
        m, therm = HD.build(sc, record=case["record"])
        it = HD.CapIter(sc["iterator"], sc["cap"])
        ncalls = len(sc["durations"])
        mid = 0
        toggled = False
        for k, dur in enumerate(sc["durations"]):
            try:
                m.solve(dur, solverType=it, minDtFrac=1e-10)
            except HD.StepCap:
                pass
            except Exception as e:
                if "sum up to above 1" in str(e):
                    break
                raise
            op = (case.get("rec_ops") or [None] * ncalls)[k] if k < len(case.get("rec_ops") or []) else None
            if op == "disable":
                m.disableRecording()                 # documented: keeps what was recorded so far
                toggled = True
            elif op == "enable":
                m.enableRecording()
                toggled = True
            elif op == "remove" and not m._record:
                m.removeRecordedData()
                toggled = True
            if k in case["save_after"] or k == ncalls - 1:
                fn = os.path.join(tmp, "d%d" % k)
                m.save(fn)
                if k < ncalls - 1:
                    mid += 1
                m2, _ = HD.build(sc, record=case["record"])
                try:
                    m2.load(fn)
                    loaded = {"t": m2.t, "x": np.array(m2.x), "rx": m2._recordedX, "rt": m2._recordedTime}
                    if loaded["rx"] is not None:
                        loaded["rx"] = np.array(loaded["rx"])
                        loaded["rt"] = np.array(loaded["rt"])
                except Exception as e:
                    sys.stdout = so
                    out.fail("load_raised:%s" % type(e).__name__, "diffusion model (recording %s): loading the saved file raised %s: %s" % ("on" if case["record"] else "off", type(e).__name__, str(e)[:200]), record=case["record"])
                    return out
                if float(loaded["t"]) != float(m.t) or not _same(loaded["x"], m.x):
                    out.fail("state_not_reproduced", "diffusion model: current time/profile differ after load")
                have = m._recordedX is not None and m._recordedTime is not None
                if have != (loaded["rx"] is not None):
                    out.fail("history_not_reproduced", "diffusion model holds %s recorded history (recording flag %s) but the loaded model holds %s" % ("a" if have else "no", m._record, "one" if loaded["rx"] is not None else "none"), toggled=toggled)
                elif have and not (_same(loaded["rx"], m._recordedX) and _same(loaded["rt"], m._recordedTime)):
                    out.fail("history_not_reproduced", "diffusion model: recorded profile history differs after load", toggled=toggled)
    finally:
        sys.stdout = so
        shutil.rmtree(tmp, ignore_errors=True)
    out.label("record_on" if case["record"] else "record_off", sc["model"])
    if toggled:
        out.label("recording_toggled_between_calls")
    out.nt(mid > 0 or toggled)
    return out


def _toy_bin(case):
    p = case["phase"]
    return toy.ToyBinary({"BETA": {"xb": p["xb"], "dH": p["dH"], "dS": p["dS"]}}, D0=case["D0"], Q=case["Q"])


def check_surrogate(case):
    from kawin.thermo import BinarySurrogate
    out = Out()
    th = _toy_bin(case)
    kw = {"kernel": case["kernel"], "normalize": True}
    s = BinarySurrogate(th, kernelKwargs=kw)
    xq = np.array(case["xq"], dtype=float)
    Tq = np.array(case["Tq"], dtype=float)
    gq = np.array(case["gq"], dtype=float)
    # untrained: exactly the backend
    pairs = [
        ("getDrivingForce", s.getDrivingForce(xq, Tq), th.getDrivingForce(xq, Tq)),
        ("getInterfacialComposition", s.getInterfacialComposition(Tq[0], gq), th.getInterfacialComposition(Tq[0], gq)),
        ("getInterdiffusivity", s.getInterdiffusivity(xq, Tq), th.getInterdiffusivity(xq, Tq)),
        ("getTracerDiffusivity", s.getTracerDiffusivity(xq, Tq), th.getTracerDiffusivity(xq, Tq)),
    ]
    for name, got, exp in pairs:
        got = got if isinstance(got, tuple) else (got,)
        exp = exp if isinstance(exp, tuple) else (exp,)
        for g, e in zip(got, exp):
            if not _same(np.asarray(g, dtype=float), np.asarray(e, dtype=float)):
                out.fail("untrained_getter_differs", "untrained %s returns %r (shape %r), the backend returns %r (shape %r)" % (name, np.asarray(g).ravel()[:4].tolist(), np.shape(g), np.asarray(e).ravel()[:4].tolist(), np.shape(e)), getter=name)
                break
    trained = []
    xt = np.array(case["xtrain"], dtype=float)
    Tt = case["Ttrain"]
    so = sys.stdout
    sys.stdout = io.StringIO()
    try:
        if "df" in case["train"]:
            if case.get("pointwise"):
                s.trainDrivingForce(xt, np.array(case["Tpoint"]), logX=case["logX"], broadcast=False)
            else:
                s.trainDrivingForce(xt, Tt if len(Tt) > 1 else Tt[0], logX=case["logX"])
            d = s.drivingForceData["BETA"]
            _requested_points(out, "driving force", np.ravel(d["x"]), np.ravel(d["T"]), xt, np.array(case["Tpoint"]) if case.get("pointwise") else np.array(Tt, dtype=float), bool(case.get("pointwise")))
            if not case.get("pointwise") and case.get("reuse_arrays"):
                # broadcast training builds its own grid: the caller's composition array may be reused afterwards (next phase, next
                # alloy) without touching what the surrogate holds, writes to its file and rebuilds from it
                kept = np.array(np.ravel(d["x"]), dtype=float).copy()
                xt *= 3.0
                if not np.array_equal(np.ravel(s.drivingForceData["BETA"]["x"]), kept):
                    out.fail("training_data_follows_callers_array", "the compositions stored with the driving-force surrogate changed when the caller reused its composition array after training (broadcast grid of %d x %d)" % (len(kept) // max(len(Tt), 1), len(Tt)))
                xt /= 3.0
                out.label("caller_arrays_reused_after_training")
            dg, xp = s.getDrivingForce(d["x"], d["T"])
            rng = max(float(np.ptp(d["dg"])), 1e-300)
            if not np.allclose(np.ravel(dg), np.ravel(d["dg"]), rtol=0, atol=1e-6 * rng):
                out.fail("training_data_not_reproduced", "driving-force surrogate at its training points: max deviation %.3e of range %.3e" % (float(np.max(np.abs(np.ravel(dg) - np.ravel(d["dg"])))), rng), quantity="df")
            trained.append("df")
        if "diff" in case["train"]:
            T2 = Tt if len(Tt) > 1 else [Tt[0], Tt[0] + 50.0]
            if case.get("pointwise"):
                s.trainDiffusivity(xt, np.array(case["Tpoint"]), logX=case["logX"], broadcast=False)
            else:
                s.trainDiffusivity(xt, T2, logX=case["logX"])
            d = s.diffusivityData["ALPHA"]
            _requested_points(out, "diffusivity", np.ravel(d["x"]), np.ravel(d["T"]), xt, np.array(case["Tpoint"]) if case.get("pointwise") else np.array(T2, dtype=float), bool(case.get("pointwise")))
            D = s.getInterdiffusivity(d["x"], d["T"])
            ref = np.ravel(d["dnkj"])
            # the model is fitted on the cube root
            if not np.allclose(np.cbrt(np.ravel(D)), np.cbrt(ref), rtol=0, atol=1e-6 * max(float(np.ptp(np.cbrt(ref))), 1e-300)):
                out.fail("training_data_not_reproduced", "interdiffusivity surrogate at its training points deviates (cube-root scale) by %.3e" % float(np.max(np.abs(np.cbrt(np.ravel(D)) - np.cbrt(ref)))), quantity="diff")
            trained.append("diff")
        if "ic" in case["train"]:
            gt = np.array(case["gtrain"], dtype=float)
            if case.get("pointwise"):
                s.trainInterfacialComposition(np.array(case["Tpoint"])[:len(gt)], gt[:len(case["Tpoint"])], logY=case["logX"], broadcast=False)
            elif case.get("ic_grid") and len(Tt) > 1:
                s.trainInterfacialComposition(np.array(Tt), gt, logY=case["logX"])          # grid over temperatures and Gibbs-Thomson energies
            else:
                s.trainInterfacialComposition(Tt[0], gt, logY=case["logX"])
            d = s.interfacialCompositionData["BETA"]
            if len(d["gExtra"]) >= 2:
                xa, xb = s.getInterfacialComposition(np.ravel(d["T"]) if (case.get("pointwise") or case.get("ic_grid")) else Tt[0], d["gExtra"])
                rng = max(float(np.ptp(d["xpalpha"])), 1e-300)
                if not np.allclose(np.ravel(xa), np.ravel(d["xpalpha"]), rtol=1e-6, atol=1e-6 * rng):
                    out.fail("training_data_not_reproduced", "interfacial-composition surrogate at its training points: max deviation %.3e of range %.3e" % (float(np.max(np.abs(np.ravel(xa) - np.ravel(d["xpalpha"])))), rng), quantity="ic")
                trained.append("ic")
        # JSON round trip into a fresh surrogate
        if trained:
            tmp = tempfile.mkdtemp(prefix="vk_c20_")
            try:
                fn = os.path.join(tmp, "s.json")
                s.toJson(fn)
                s2 = BinarySurrogate(_toy_bin(case), kernelKwargs=kw)
                s2.fromJson(fn)
                q = [("getDrivingForce", lambda z: z.getDrivingForce(xq, Tq)), ("getInterdiffusivity", lambda z: z.getInterdiffusivity(xq, Tq)),
                     ("getTracerDiffusivity", lambda z: z.getTracerDiffusivity(xq.reshape(-1, 1), Tq)), ("getInterfacialComposition", lambda z: z.getInterfacialComposition(Tq[0], gq))]
                # (the trained tracer getter indexes x.shape[1], so it is queried with a column array; with a 1-D array it raises - noted in DESIGN.md, outside the listed statement)
                for name, f in q:
                    a, b = f(s), f(s2)
                    a = a if isinstance(a, tuple) else (a,)
                    b = b if isinstance(b, tuple) else (b,)
                    for u, v in zip(a, b):
                        if np.shape(u) != np.shape(v) or not np.allclose(np.asarray(u, dtype=float), np.asarray(v, dtype=float), rtol=1e-12, atol=0, equal_nan=True):
                            out.fail("json_roundtrip_differs", "%s: the surrogate rebuilt from its saved file predicts %r, the original %r" % (name, np.ravel(v)[:3].tolist(), np.ravel(u)[:3].tolist()), getter=name)
                            break
            finally:
                shutil.rmtree(tmp, ignore_errors=True)
    except np.linalg.LinAlgError as e:
        out.label("training_refused:" + type(e).__name__)
    except Exception as e:
        import traceback
        fr = [f for f in traceback.extract_tb(e.__traceback__) if "/kawin/" in f.filename]
        if not fr:
            raise
        out.fail("surrogate_raised:%s" % type(e).__name__, "%r at %s:%d (%s); trained so far %r, training %r%s" % (e, os.path.basename(fr[-1].filename), fr[-1].lineno, fr[-1].name, trained, case["train"],
                 ", point-wise lists" if case.get("pointwise") else (", temperature x Gibbs-Thomson grid" if case.get("ic_grid") else "")))
    finally:
        sys.stdout = so
    out.label("trained_" + "+".join(trained) if trained else "untrained", case["kernel"], "pointwise" if case.get("pointwise") else ("ic_T_grid" if case.get("ic_grid") and len(Tt) > 1 and "ic" in trained else "broadcast"))
    out.nt(0 < len(trained) < 3)
    return out


def _requested_points(out, what, xs, Ts, xt, Tt, pointwise):
    """The training set is the one the user asked for: the grid of all (x_i, T_j) with broadcasting (documented: "will create grid
    of points over x and T"), the paired points without.  (Reproducing a training set that is not the requested one proves nothing.)"""
    want = [(float(a), float(b)) for a, b in zip(xt, Tt)] if pointwise else [(float(a), float(b)) for b in Tt for a in xt]
    got = [(float(a), float(b)) for a, b in zip(xs, Ts)]
    key = lambda p: (round(math.log10(max(p[0], 1e-300)), 9), round(p[1], 6))
    if sorted(map(key, want)) != sorted(map(key, got)):
        out.fail("training_set_not_requested", "%s surrogate: %d training points stored for %d requested (%s of %d compositions and %d temperatures)"
                 % (what, len(got), len(want), "pairs" if pointwise else "grid", len(xt), len(Tt)), quantity=what)


class _ToyMultiSurr(toy.ToyMulti):
    """ToyMulti with the array conventions the surrogate trainer uses: x (N,e), T (N,) -> (N,e,e) / (N,e+1),
    and a curvatureFactor returning kawin's CurvatureOutput (stoichiometric precipitate: gba = 0)."""

    def curvatureFactor(self, x, T, precPhase=None, removeCache=False, searchDir=None, computeSearchDir=False):
        from kawin.thermo.MultiTherm import CurvatureOutput
        x = np.atleast_1d(np.squeeze(np.asarray(x, dtype=float)))
        cv = self.curvature(x, float(np.squeeze(T)), precPhase)
        if cv is None:
            return None
        n = len(x)
        return CurvatureOutput(dc=cv["dc"], mc=cv["mc"], gba=np.zeros((n, n)), beta=cv["beta"], c_eq_alpha=cv["c_eq_alpha"], c_eq_beta=cv["c_eq_beta"])

    def getInterdiffusivity(self, x, T, removeCache=True, phase=None):
        T = np.atleast_1d(np.asarray(T, dtype=float)).reshape(-1)
        x = np.atleast_2d(np.asarray(x, dtype=float))
        n = max(len(T), len(x))
        T = np.broadcast_to(T, (n,))
        x = np.broadcast_to(x, (n, x.shape[-1]))

        def full(t, xi):
            # diagonal from the Arrhenius law, off-diagonal terms negative and composition dependent (as cross terms of real
            # interdiffusivity matrices can be): only data for the surrogate, which fits a signed cube root
            d = self.Dsol(float(t))
            sq = np.sqrt(np.outer(d, d))
            off = -0.3 * sq * (1.0 + np.add.outer(xi, xi))
            return np.diag(d) + off - np.diag(np.diag(off))
        return np.squeeze(np.array([full(t, xi) for t, xi in zip(T, x)]))

    def getTracerDiffusivity(self, x, T, removeCache=True, phase=None):
        T = np.atleast_1d(np.asarray(T, dtype=float)).reshape(-1)
        x = np.atleast_2d(np.asarray(x, dtype=float))
        n = max(len(T), len(x))
        T = np.broadcast_to(T, (n,))
        return np.squeeze(np.array([np.concatenate([[np.mean(self.Dsol(float(t)))], self.Dsol(float(t))]) for t in T]))


def _toy_multi(case):
    p = case["phase"]
    return _ToyMultiSurr(["A", "B", "C", "D"][:len(p["xb"]) + 1], {"BETA": {"xb": p["xb"], "dH": p["dH"], "dS": p["dS"]}}, D0=case["D0"], Q=case["Q"])


def _cmp(out, kind, what, got, exp, rtol, extra=None):
    got = got if isinstance(got, tuple) else (got,)
    exp = exp if isinstance(exp, tuple) else (exp,)
    if len(got) != len(exp):
        out.fail(kind, "%s: %d values returned, expected %d" % (what, len(got), len(exp)), **(extra or {}))
        return False
    for i, (g, e) in enumerate(zip(got, exp)):
        if g is None or e is None:
            if not (g is None and e is None):
                out.fail(kind, "%s: item %d is %r, expected %r" % (what, i, g, e), **(extra or {}))
                return False
            continue
        g, e = np.asarray(g, dtype=float), np.asarray(e, dtype=float)
        ok = (g.shape == e.shape) and (np.array_equal(g, e, equal_nan=True) if rtol == 0 else np.allclose(g, e, rtol=rtol, atol=rtol * max(float(np.max(np.abs(e))) if e.size else 0.0, 1e-300), equal_nan=True))
        if not ok:
            out.fail(kind, "%s: item %d is %r (shape %r), expected %r (shape %r)" % (what, i, g.ravel()[:4].tolist(), g.shape, e.ravel()[:4].tolist(), e.shape), **(extra or {}))
            return False
    return True


def check_surrogate_multi(case):
    from kawin.thermo import MulticomponentSurrogate
    out = Out()
    th = _toy_multi(case)
    kw = {"kernel": case["kernel"], "normalize": True}
    s = MulticomponentSurrogate(th, kernelKwargs=kw)
    xq = np.array(case["xq"], dtype=float)           # (2, 2)
    Tq = np.array(case["Tq"], dtype=float)
    R = np.array(case["R"], dtype=float)
    g = np.array(case["g"], dtype=float)
    trained = []
    so = sys.stdout
    sys.stdout = io.StringIO()
    try:
        def queries(z):
            res = {}
            x1, T1 = xq[0], float(Tq[0])
            dg1 = float(np.squeeze(th.getDrivingForce(x1, T1)[0]))
            res["curvatureFactor"] = tuple(z.curvatureFactor(x1, T1))
            res["getGrowthAndInterfacialComposition"] = tuple(z.getGrowthAndInterfacialComposition(x1, T1, dg1, R, g))
            res["impingementFactor"] = z.impingementFactor(x1, T1)
            # a dilute point without matrix + precipitate equilibrium, asked after a successful one (the backend then has its documented
            # answers: no curvature factors, no growth rate, the impingement factor of the last successful calculation)
            xu = xq[0] * 1e-9
            if th.curvatureFactor(xu, T1) is None:
                for nm, fn in (("curvatureFactor_no_equilibrium", lambda: z.curvatureFactor(xu, T1)), ("getGrowth_no_equilibrium", lambda: z.getGrowthAndInterfacialComposition(xu, T1, dg1, R, g)),
                               ("impingementFactor_no_equilibrium", lambda: z.impingementFactor(xu, T1))):
                    v = fn()
                    res[nm] = v if (v is None or np.isscalar(v) or isinstance(v, np.ndarray)) else tuple(v)
            res["getDrivingForce"] = z.getDrivingForce(xq, Tq)
            res["getDrivingForce1"] = z.getDrivingForce(x1, T1)
            res["getInterdiffusivity"] = z.getInterdiffusivity(xq, Tq)
            res["getTracerDiffusivity"] = z.getTracerDiffusivity(xq, Tq)
            return res
        # untrained: exactly the backend, for every quantity
        ref = queries(th)
        got = queries(s)
        if "impingementFactor_no_equilibrium" in ref:
            out.label("no_equilibrium_point_queried")
        for name in ref:
            _cmp(out, "untrained_getter_differs", "untrained %s" % name, got[name], ref[name], 0, {"getter": name})
        xt = np.array(case["xtrain"], dtype=float)
        Tt = np.array(case["Ttrain"], dtype=float)
        bc = case["broadcast"]
        try:
            Targ = Tt if (len(Tt) > 1 or not bc) else float(Tt[0])
            if "df" in case["train"]:
                s.trainDrivingForce(xt, Targ, logX=case["logX"], broadcast=bc)
                trained.append("df")
            if "diff" in case["train"]:
                s.trainDiffusivity(xt, Targ, logX=case["logX"], broadcast=bc)
                trained.append("diff")
            if "curv" in case["train"]:
                s.trainCurvature(xt, Targ, logX=case["logX"], broadcast=bc)
                trained.append("curv")
        except np.linalg.LinAlgError as e:     # a numerically singular interpolation matrix is refused by scipy; the statement is about trained surrogates
            out.label("training_refused:" + type(e).__name__)
            return out
        # the training set is the requested one: the full grid with broadcasting, the paired points without
        for grp, data in (("df", getattr(s, "drivingForceData", {}).get("BETA")), ("diff", getattr(s, "diffusivityData", {}).get("ALPHA")), ("curv", getattr(s, "curvatureData", {}).get("BETA"))):
            if grp in trained and data is not None:
                pts = [(xx, float(tt)) for tt in Tt for xx in xt] if bc else list(zip(xt, [float(v) for v in Tt]))
                if grp == "curv":       # points at which the backend has no two-phase equilibrium are documented to be dropped
                    pts = [q for q in pts if th.curvatureFactor(np.asarray(q[0], dtype=float), q[1]) is not None]
                want_n = len(pts)
                if len(np.ravel(data["T"])) != want_n:
                    out.fail("training_set_not_requested", "%s surrogate: %d training points stored for %d requested (%s of %d compositions and %d temperatures)" % (grp, len(np.ravel(data["T"])), want_n, "grid" if bc else "pairs", len(xt), len(Tt)), quantity=grp)
        if "curv" in trained and np.min(np.asarray(s.curvatureData["BETA"]["xEqAlpha"], dtype=float)) <= 1e-12:
            # the analytic backend ran a tie-line into the corner of the simplex (a solute exhausted: composition 0 or 1e-16);
            # a real backend never returns that, and its logarithm cannot be interpolated
            out.label("toy_tieline_exhausted")
            return out
        # untrained quantities of a partly trained surrogate still come from the backend
        got = queries(s)
        groups = {"df": ["getDrivingForce", "getDrivingForce1"], "diff": ["getInterdiffusivity", "getTracerDiffusivity"],
                  "curv": ["curvatureFactor", "getGrowthAndInterfacialComposition", "impingementFactor", "curvatureFactor_no_equilibrium", "getGrowth_no_equilibrium", "impingementFactor_no_equilibrium"]}
        for grp, names in groups.items():
            if grp not in trained:
                for name in names:
                    if name in ref:
                        _cmp(out, "untrained_getter_differs", "%s (not trained; trained: %s)" % (name, "+".join(trained) or "-"), got[name], ref[name], 0, {"getter": name, "trained": trained})
        # trained quantities reproduce their training data at the training points
        tol = 1e-6
        if "df" in trained:
            d = s.drivingForceData["BETA"]
            dg, xp = s.getDrivingForce(d["x"], d["T"])
            rng = max(float(np.ptp(d["dg"])), 1e-300)
            if np.shape(dg) != np.shape(d["dg"]) or not np.allclose(dg, d["dg"], rtol=0, atol=tol * rng):
                out.fail("training_data_not_reproduced", "driving force at its training points deviates by %.3e of range %.3e" % (float(np.max(np.abs(np.ravel(dg) - np.ravel(d["dg"])))) if np.size(dg) == np.size(d["dg"]) else -1, rng), quantity="df")
            if np.shape(xp) != np.shape(d["xp"]) or not np.allclose(xp, d["xp"], rtol=0, atol=tol):
                out.fail("training_data_not_reproduced", "nucleus composition at the training points: %r vs %r" % (np.ravel(xp)[:4].tolist(), np.ravel(d["xp"])[:4].tolist()), quantity="df_xp")
        if "diff" in trained:
            d = s.diffusivityData["ALPHA"]
            D = s.getInterdiffusivity(np.asarray(d["x"]), np.asarray(d["T"]))
            Dt = s.getTracerDiffusivity(np.asarray(d["x"]), np.asarray(d["T"]))
            for nm, a, b in (("interdiffusivity", D, d["dnkj"]), ("tracer diffusivity", Dt, d["dtracer"])):
                a, b = np.asarray(a, dtype=float), np.asarray(b, dtype=float)
                if a.shape != b.shape or not np.allclose(np.cbrt(a), np.cbrt(b), rtol=0, atol=tol * max(float(np.ptp(np.cbrt(b))), float(np.max(np.abs(np.cbrt(b)))) * 1e-3, 1e-300)):
                    out.fail("training_data_not_reproduced", "%s at its training points (cube-root scale): shapes %r/%r, max deviation %r" % (nm, a.shape, b.shape, float(np.max(np.abs(np.cbrt(a) - np.cbrt(b)))) if a.shape == b.shape else None), quantity="diff")
        if "curv" in trained:
            d = s.curvatureData["BETA"]
            bad = False
            for k in range(len(d["x"])):
                cv = s.curvatureFactor(np.asarray(d["x"][k]), float(d["T"][k]))
                for nm in ("dc", "mc", "gba", "beta", "xEqAlpha", "xEqBeta"):
                    col = np.asarray(d[nm], dtype=float)
                    want = col[k]
                    have = np.asarray(getattr(cv, {"xEqAlpha": "c_eq_alpha", "xEqBeta": "c_eq_beta"}.get(nm, nm)), dtype=float)
                    scale = max(float(np.max(np.abs(col))), 1e-300)
                    if have.shape != np.shape(want) or not np.allclose(have, want, rtol=0, atol=tol * scale):
                        out.fail("training_data_not_reproduced", "curvature quantity %s at training point %d: %r, training value %r" % (nm, k, np.ravel(have).tolist(), np.ravel(want).tolist()), quantity="curv_" + nm)
                        bad = True
                        break
                if bad:
                    break
            # the growth rate and impingement factor of a trained surrogate are those of its curvature factors
            x1, T1 = np.asarray(d["x"][0], dtype=float), float(d["T"][0])
            cv = s.curvatureFactor(x1, T1)
            dg1 = float(np.squeeze(th.getDrivingForce(x1, T1)[0]))
            gr = s.getGrowthAndInterfacialComposition(x1, T1, dg1, R, g)
            if not np.allclose(np.asarray(gr.growth_rate, dtype=float), float(cv.mc) / R * (dg1 - g), rtol=1e-10, atol=0):
                out.fail("trained_growth_inconsistent", "trained growth rate %r is not mc/R (dG - g) = %r with the surrogate's own curvature factors" % (np.ravel(gr.growth_rate).tolist(), (float(cv.mc) / R * (dg1 - g)).tolist()))
            if not np.allclose(float(np.squeeze(s.impingementFactor(x1, T1))), float(np.squeeze(cv.beta)), rtol=1e-12, atol=0):
                out.fail("trained_growth_inconsistent", "trained impingement factor differs from the surrogate's curvature beta")
        # JSON round trip into a fresh surrogate
        if trained:
            tmp = tempfile.mkdtemp(prefix="vk_c20_")
            try:
                fn = os.path.join(tmp, "s.json")
                s.toJson(fn)
                s2 = MulticomponentSurrogate(_toy_multi(case), kernelKwargs=kw)
                s2.fromJson(fn)
                a, b = queries(s), queries(s2)
                for name in a:
                    _cmp(out, "json_roundtrip_differs", "%s from the surrogate rebuilt from its file" % name, b[name], a[name], 1e-12, {"getter": name})
            finally:
                shutil.rmtree(tmp, ignore_errors=True)
    except Exception as e:
        import traceback
        tb = traceback.extract_tb(e.__traceback__)
        fr = [f for f in tb if "/kawin/" in f.filename]
        if not fr:
            raise
        out.fail("surrogate_query_raised:%s" % type(e).__name__, "%r at %s:%d (%s); trained %r" % (e, os.path.basename(fr[-1].filename), fr[-1].lineno, fr[-1].name, trained))
    finally:
        sys.stdout = so
    out.label("trained_" + "+".join(trained) if trained else "untrained", "solutes_%d" % len(case["phase"]["xb"]), case["kernel"], "broadcast" if case["broadcast"] else "pointwise", "T_%d" % len(set(case["Ttrain"])))
    out.nt(0 < len(trained) < 3)
    return out


@st.composite
def _surr_multi_case(draw):
    T0 = draw(st.floats(600, 1000))
    ns = draw(st.sampled_from([2, 2, 3]))          # solutes: ternary, or quaternary (flattened n x n blocks of the curvature output differ from 2n only there)
    x0 = [draw(st.floats(0.01, 0.08)) for _ in range(ns)]
    xb = [draw(st.floats(0.1, 0.4 if ns == 2 else 0.28)) for _ in range(ns)]
    S = 10 ** draw(st.floats(0.5, 1.5))
    lnK = sum(xb[i] * np.log(x0[i]) for i in range(ns)) - np.log(S)
    dS = draw(st.floats(0, 30))
    phase = {"xb": xb, "dS": dS, "dH": float(8.314462618 * T0 * (dS / 8.314462618 - lnK))}
    bc = draw(st.booleans())
    nT = draw(st.sampled_from([1, 2, 3]))
    if bc:
        nx = draw(st.integers(4, 7)) + 2 * (ns - 2)
        Ttrain = [T0, T0 + 30.0, T0 - 30.0][:nT]
        if draw(st.integers(0, 4)) == 4:
            Ttrain = [float(v) for v in np.linspace(T0 - 30.0, T0 + 30.0, nx)]       # square grid: as many temperatures as compositions
    else:
        nx = draw(st.integers(6, 10)) + 2 * (ns - 2)
        Ttrain = [T0 + (-1) ** k * (8.0 + 4.0 * k + draw(st.floats(0.0, 3.0))) for k in range(nx)]    # point-wise lists: distinct temperatures that zig-zag, so the points are never collinear in (x, T)
    # distinct, separated training compositions (duplicates make any interpolant singular): distinct cells of a 5x5 lattice, jittered inside the cell
    cells = draw(st.lists(st.tuples(*[st.integers(0, 4)] * ns), min_size=nx, max_size=nx, unique=True))
    xtrain = [[x0[k] * (0.8 + 0.2 * cell[k] + draw(st.floats(0.0, 0.08))) for k in range(ns)] for cell in cells]
    train = draw(st.lists(st.sampled_from(["df", "diff", "curv", "curv"]), min_size=0, max_size=3, unique=True))
    return {"phase": phase, "D0": [1e-5, 3e-5, 2e-5][:ns], "Q": [draw(st.floats(100e3, 250e3)) for _ in range(ns)], "xtrain": xtrain, "Ttrain": Ttrain, "broadcast": bc,
            "train": train, "logX": draw(st.booleans()), "kernel": draw(st.sampled_from(["cubic", "linear", "thin_plate_spline"])),
            "xq": [[x0[k] * [1.1, 1.2, 1.05][k] for k in range(ns)], [x0[k] * [1.3, 0.9, 1.15][k] for k in range(ns)]], "Tq": [T0 + 5.0, T0 - 5.0],
            "R": [1e-9, 3e-9, 1e-8], "g": [2000.0, 700.0, 200.0]}


@st.composite
def _kwn_case(draw):
    sc = draw(scen.toy_binary_scenario(cap=120, max_phases=3, allow_elastic=True))
    if len(sc["durations"]) == 1 and draw(st.integers(0, 4)) > 0:
        t = sc["durations"][0]
        sc["durations"] = [t * 0.3, t * 0.7]
    names = [p["name"] for p in sc["phases"]]
    sc["record_psd"] = [n for n in names if draw(st.booleans())] if sc["pbm"].get("adaptive", True) else []
    n = len(sc["durations"])
    sa = set(draw(st.lists(st.integers(0, n - 1), min_size=0, max_size=n)))
    if n > 1 and draw(st.integers(0, 4)) > 0:
        sa.add(draw(st.integers(0, n - 2)))
    return {"sc": sc, "save_after": sorted(sa)}


@st.composite
def _diff_case(draw):
    from . import c04
    sc = draw(c04._scenario(cap=40))
    sc["model"] = "single"
    if len(sc["durations"]) == 1 and draw(st.booleans()):
        t = sc["durations"][0]
        sc["durations"] = [t * 0.5, t * 0.5]
    n = len(sc["durations"])
    rec_ops = [draw(st.sampled_from([None, None, None, "disable", "enable", "remove"])) for _ in range(n)]
    return {"sc": sc, "record": draw(st.booleans()), "rec_ops": rec_ops, "save_after": sorted(set(draw(st.lists(st.integers(0, n - 1), min_size=0, max_size=n))))}


@st.composite
def _surr_case(draw):
    T0 = draw(st.floats(500, 900))
    logxeq = draw(st.floats(-5, -3))
    dS = draw(st.floats(0, 30))
    phase = {"xb": draw(st.floats(0.2, 0.75)), "dS": dS, "dH": 8.314462618 * T0 * (dS / 8.314462618 - logxeq * np.log(10))}
    xeq = 10 ** logxeq
    nx = draw(st.integers(4, 8))
    lo, hi = xeq * 1.5, min(xeq * 40, 0.05)
    xtrain = list(np.logspace(np.log10(lo), np.log10(hi), nx) if draw(st.booleans()) else np.linspace(lo, hi, nx))
    Ttrain = [T0] if draw(st.booleans()) else [T0 - 40.0, T0, T0 + 40.0][: draw(st.integers(2, 3))]
    if draw(st.integers(0, 4)) == 4:
        Ttrain = [float(v) for v in np.linspace(T0 - 40.0, T0 + 40.0, nx)]        # square grid: as many temperatures as compositions
    train = draw(st.lists(st.sampled_from(["df", "diff", "ic"]), min_size=0, max_size=3, unique=True))
    reuse = draw(st.booleans())
    pointwise = draw(st.integers(0, 3)) == 3
    Tpoint = [T0 + (-1) ** k * (8.0 + 4.0 * k + draw(st.floats(0.0, 3.0))) for k in range(nx)] if pointwise else None      # zig-zag: never collinear with the increasing compositions
    return {"pointwise": pointwise, "reuse_arrays": reuse, "Tpoint": Tpoint, "ic_grid": draw(st.booleans()), "phase": phase, "D0": 1e-5, "Q": draw(st.floats(100e3, 250e3)), "xtrain": [float(v) for v in xtrain], "Ttrain": Ttrain,
            "gtrain": [float(v) for v in np.linspace(draw(st.floats(50, 500)), draw(st.floats(1000, 4000)), draw(st.integers(4, 7)))],
            "train": train, "logX": draw(st.booleans()), "kernel": draw(st.sampled_from(["cubic", "linear", "thin_plate_spline"])),
            "xq": [float(lo * 1.3), float(0.5 * (lo + hi))], "Tq": [T0, T0 + 10.0], "gq": [300.0, 900.0]}


def clauses():
    return [
        Clause("kwn_saveload", _kwn_case, check_kwn, quick=200, thorough=4000, shrink=False,
               rule="generator: toy binary scenario (1-3 phases, PSD recording on a random subset) solved in 1-3 calls, saved after a random subset of the calls (always after the last) and loaded into a freshly built model of the same configuration; "
                    "oracle: all 16 pData arrays, step counter, PSD/bounds/centres/grid scalars identical; recorded PSD identical through saveRecordedPSD/loadRecordedPSD; non-trivial: a save strictly between two solve calls after >= 5 steps"),
        Clause("diffusion_saveload", _diff_case, check_diff, quick=800, thorough=20000, shrink=False,
               rule="generator: single-phase stub diffusion scenario, recording on/off at construction and toggled between solve calls (disableRecording keeps the history, enableRecording restarts it, removeRecordedData while disabled), 1-4 solve calls, saved after a random subset of calls and loaded into a fresh model; oracle: load succeeds, current time/profile and (recording on) the recorded history identical; non-trivial: a save between two solve calls"),
        Clause("surrogate", _surr_case, check_surrogate, quick=800, thorough=20000,
               rule="generator: BinarySurrogate over an analytic binary backend, trained for a random subset of {driving force, diffusivity, interfacial composition} on linear/log grids (single temperature or 2-3 temperatures), three kernels; "
                    "oracle: untrained getters return exactly the backend's value for the same quantity, trained models reproduce their training outputs at the training inputs, a surrogate rebuilt from its JSON file predicts identically; non-trivial: at least one trained and one untrained quantity"),
        Clause("surrogate_multi", _surr_multi_case, check_surrogate_multi, quick=500, thorough=12000,
               rule="generator: MulticomponentSurrogate over an analytic ternary backend (solubility product, stoichiometric precipitate), trained for a random subset of {driving force, diffusivity, curvature factors} on 4-10 composition points x 1-3 temperatures, broadcast grid or point-wise lists, linear/log composition, three kernels; "
                    "oracle: every getter of an untrained quantity (driving force, curvature factors, growth and interfacial composition, impingement factor, inter- and tracer diffusivity) returns exactly the backend's value, also after other quantities were trained and also at a dilute point without two-phase equilibrium asked after a successful one (no curvature factors, no growth rate, the backend's last impingement factor); trained models reproduce every training output at the training inputs; trained growth/impingement follow from the surrogate's own curvature factors; a surrogate rebuilt from its JSON file predicts identically; non-trivial: at least one trained and one untrained quantity"),
    ]
