"""C10 — diffusivities are physically valid and match the free-energy curvature."""
import io
import sys

import math
import numpy as np
from hypothesis import strategies as st

from ..core import Clause, Out

LEVEL = "exploration"
ASSUMPTIONS = [
    "points are accepted when a global equilibrium among the phases listed for the system returns the matrix phase alone (acceptance is counted); local (single-phase) equilibria of pycalphad are trusted for the chemical potentials",
    "finite differences: central, step 1e-3 of each mole fraction, compared at 1e-4 of the largest entry (truncation (h/x)^2/3 ~ 3e-7; measured maximum deviation over 150 points 9.5e-6, median 3e-7)",
    "the finite-difference comparison is skipped when forward and backward differences disagree by more than 1 % of the largest entry: the free energy is then not twice differentiable inside the stencil (Curie line of the magnetic model; found by the thorough tier at bcc Fe-27.5Cr, 950 K, where the one-sided increments of mu_Cr jump from 2.80 to 3.005 J/mol)",
    "tracer diffusivity = R*T*mobility is a differential between two code paths (thermodynamics module vs the diffusion module's computeMobility); systems described by diffusivity parameters instead of mobilities (Al-Zr) are only judged on the curvature and positivity clauses; compared at rtol 1e-5 (the two paths converge their own equilibria: measured deviation up to 7e-7 for dilute Cu-Ti)",
]
R = 8.314
SYSTEMS = {
    # name: (dataset attr or path, elements, phases (matrix first), solute ranges, T range)
    "nicral_fcc": ("NICRAL_TDB", ["NI", "CR", "AL"], ["FCC_A1", "BCC_A2"], [(0.005, 0.30), (0.005, 0.14)], (1200, 1550)),
    "nicr_fcc": ("NICRAL_TDB", ["NI", "CR"], ["FCC_A1", "BCC_A2"], [(0.005, 0.35)], (1100, 1550)),
    "nial_fcc": ("NICRAL_TDB", ["NI", "AL"], ["FCC_A1", "BCC_A2"], [(0.005, 0.12)], (1200, 1550)),
    "fecrni_fcc": ("FECRNI_DB", ["FE", "CR", "NI"], ["FCC_A1", "BCC_A2"], [(0.01, 0.25), (0.08, 0.5)], (1150, 1550)),
    "fecrni_bcc": ("FECRNI_DB", ["FE", "CR", "NI"], ["BCC_A2", "FCC_A1"], [(0.1, 0.6), (0.002, 0.05)], (950, 1500)),      # below ~905 K Fe-50Cr lies inside the bcc miscibility gap, which the equilibrium solver reports as one phase
    # element orders that are cyclic rotations of the alphabetical order (the un-sorting permutation is not its own inverse there)
    "nicral_fcc_rot": ("NICRAL_TDB", ["NI", "AL", "CR"], ["FCC_A1", "BCC_A2"], [(0.005, 0.14), (0.005, 0.30)], (1200, 1550)),
    "fecrni_fcc_rot": ("FECRNI_DB", ["FE", "NI", "CR"], ["FCC_A1", "BCC_A2"], [(0.08, 0.5), (0.01, 0.25)], (1150, 1550)),
    # the queried matrix phase is the *second* listed phase, addressed through the `phase` keyword of the queries
    "fecrni_bcc_second": ("FECRNI_DB", ["FE", "CR", "NI"], ["FCC_A1", "BCC_A2"], [(0.1, 0.6), (0.002, 0.05)], (950, 1500)),
    "alzr_fcc": ("ALZR_TDB", ["AL", "ZR"], ["FCC_A1", "AL3ZR"], [(1e-6, 5e-4)], (600, 900)),
    "almgsi_fcc": ("ALMGSI_DB", ["AL", "MG", "SI"], ["FCC_A1", "MGSI_B_P", "MG5SI6_B_DP"], [(1e-4, 0.01), (1e-4, 0.008)], (600, 850)),
    "cuti_fcc": ("/examples/CuTi.tdb", ["CU", "TI"], ["FCC_A1", "CU4TI"], [(1e-4, 0.03)], (800, 1150)),
}
QUERY_PHASE = {"fecrni_bcc_second": "BCC_A2"}
_cache = {}


def _therm(name):
    if name in _cache:
        return _cache[name]
    from kawin.thermo import GeneralThermodynamics
    from .. import core
    src, els, phs, _, _ = SYSTEMS[name]
    so = sys.stdout
    sys.stdout = io.StringIO()
    try:
        if src.startswith("/"):
            import os
            db = os.path.join(core.KAWIN_SRC, src.lstrip("/"))
            if not os.path.exists(db):            # scratch copies used for sensitivity runs only carry the package
                db = os.path.join("/repo", src.lstrip("/"))
        else:
            from kawin.tests import datasets as D
            db = getattr(D, src)
        th = GeneralThermodynamics(db, els, phs)
    finally:
        sys.stdout = so
    _cache[name] = th
    return th


def check_point(case):
    from kawin.thermo.FreeEnergyHessian import dMudX
    from kawin.thermo.Mobility import mobility_matrix
    from kawin.diffusion.DiffusionParameters import computeMobility
    out = Out()
    name = case["system"]
    th = _therm(name)
    _, els, phs, _, _ = SYSTEMS[name]
    ph = QUERY_PHASE.get(name, phs[0])
    x = np.array(case["x"], dtype=float)
    T = case["T"]
    out.label(name)
    so = sys.stdout
    sys.stdout = io.StringIO()
    corr = case.get("corr") or {}
    Dtr0 = None
    um = case.get("user_mob")
    saved_mob = th.mobCallables.get(ph)
    try:
        if um and saved_mob is not None:
            # documented option: mobility of every element given by the user as a function of temperature (setMobility with a dictionary)
            fns = {els[i]: (lambda T_, a=a, q=q: a * math.exp(-q / (R * T_))) for i, (a, q) in enumerate(um)}
            th.setMobility({e: fns[e] for e in (els if not case.get("user_mob_reversed") else els[::-1])}, ph)
            th.clearCache()
            out.label("user_supplied_mobility")
        if corr and th.mobCallables.get(ph) is not None:
            # documented option: "factor to multiply mobility by for each element" - the uncorrected tracer diffusivities first
            th.setMobilityCorrection("all", 1)
            try:
                Dtr0 = np.array(th.getTracerDiffusivity(x if len(x) > 1 else x[0], T, removeCache=True, phase=ph), dtype=float)
            except Exception:
                Dtr0 = None
            for e, f in corr.items():
                th.setMobilityCorrection("all" if e == "all" else els[int(e)], f)
            out.label("mobility_correction")
        try:
            md = computeMobility(th, x if len(x) > 1 else x[0], T)
            names = [str(p) for p in md.phases[0]]
        except Exception:
            out.label("equilibrium_failed")
            return out
        if names != [ph]:
            out.label("not_single_phase")
            return out
        out.label("accepted")
        xq = x if len(x) > 1 else x[0]
        res, cs = th.getLocalEq(xq, T, 0, [ph])
        mu = np.array(res.chemical_potentials, dtype=float)
        cset = cs[0]
        alpha = sorted(els)                       # pycalphad order
        ref = els[0]
        sol_alpha = [e for e in alpha if e != ref]
        H = np.array(dMudX(mu, cset, ref), dtype=float)      # rows/cols: alphabetical solutes
        n = len(sol_alpha)
        # finite differences of the local-equilibrium chemical potentials
        FD = np.zeros((n, n))
        ok_fd = True
        for b, eb in enumerate(sol_alpha):
            jb = els[1:].index(eb)
            h = 1e-3 * x[jb]
            mus = []
            for sgn in (+1, -1):
                xx = x.copy()
                xx[jb] += sgn * h
                r2, _ = th.getLocalEq(xx if len(xx) > 1 else xx[0], T, 0, [ph])
                mus.append(np.array(r2.chemical_potentials, dtype=float))
            if not (np.all(np.isfinite(mus[0])) and np.all(np.isfinite(mus[1]))):
                ok_fd = False
                break
            dm = (mus[0] - mus[1]) / (2 * h)
            # a kink inside the stencil (the magnetic model has a discontinuous second derivative on the Curie line, e.g. bcc Fe-27.5Cr
            # at 950 K): forward and backward differences of a smooth function differ by O(h), here by several percent
            fwd, bwd = (mus[0] - mu) / h, (mu - mus[1]) / h
            dd = np.array([(fwd[alpha.index(ea)] - fwd[alpha.index(ref)]) - (bwd[alpha.index(ea)] - bwd[alpha.index(ref)]) for ea in sol_alpha])
            cc = np.array([dm[alpha.index(ea)] - dm[alpha.index(ref)] for ea in sol_alpha])
            if np.any(np.abs(dd) > 1e-2 * np.max(np.abs(cc))):
                ok_fd = False
                out.label("kink_inside_stencil")
                break
            for a, ea in enumerate(sol_alpha):
                FD[a, b] = dm[alpha.index(ea)] - dm[alpha.index(ref)]
        scale = float(np.max(np.abs(H)))
        if ok_fd and not np.allclose(H, FD, rtol=1e-4, atol=1e-4 * scale):
            out.fail("curvature_vs_finite_difference", "%s x=%r T=%r: dMudX = %r, central differences of the equilibrium chemical potentials = %r" % (name, x.tolist(), T, H.tolist(), FD.tolist()))
        if not np.allclose(H, H.T, rtol=1e-9, atol=1e-9 * scale):
            out.fail("curvature_not_symmetric", "%s x=%r T=%r: dMudX = %r" % (name, x.tolist(), T, H.tolist()))
        ev = np.linalg.eigvalsh(0.5 * (H + H.T))
        if np.any(ev <= 0):
            out.fail("curvature_not_positive_definite", "%s x=%r T=%r: eigenvalues %r in a region reported single phase" % (name, x.tolist(), T, ev.tolist()))
        D = np.atleast_2d(np.array(th.getInterdiffusivity(xq, T, phase=ph), dtype=float))
        dev = np.linalg.eigvals(D)
        if np.any(np.abs(dev.imag) > 1e-9 * np.abs(dev)) or np.any(dev.real <= 0):
            out.fail("interdiffusivity_eigenvalues", "%s x=%r T=%r: interdiffusivity %r has eigenvalues %r" % (name, x.tolist(), T, D.tolist(), dev.tolist()))
        # asked right after a query at a neighbouring state that kept its cache: the answer must be the one for the requested state
        th.getTracerDiffusivity(xq, T - case.get("dT_prev", 0.005), removeCache=False, phase=ph)
        Dtr = np.array(th.getTracerDiffusivity(xq, T, removeCache=False, phase=ph), dtype=float)
        th.clearCache()
        if np.any(~np.isfinite(Dtr)) or np.any(Dtr <= 0):
            out.fail("tracer_not_positive", "%s x=%r T=%r: tracer diffusivities %r" % (name, x.tolist(), T, Dtr.tolist()))
        if Dtr0 is not None:
            fac = np.ones(len(els))
            for e, f in corr.items():         # applied in this order by the harness: a later entry overrides an earlier 'all'
                if e == "all":
                    fac[:] = f
                else:
                    fac[int(e)] = f
            if not np.allclose(Dtr, Dtr0 * fac, rtol=1e-5, atol=0):
                out.fail("mobility_correction_not_applied", "%s x=%r T=%r: tracer diffusivities %r with correction factors %r, %r without" % (name, x.tolist(), T, Dtr.tolist(), fac.tolist(), Dtr0.tolist()))
        if um and saved_mob is not None:
            fac_u = np.ones(len(els))
            for e, f in corr.items():
                if e == "all":
                    fac_u[:] = f
                else:
                    fac_u[int(e)] = f
            want = np.array([R * T * a * math.exp(-q / (R * T)) for a, q in um]) * fac_u
            if not np.allclose(Dtr, want, rtol=1e-9, atol=0):
                out.fail("tracer_not_RT_mobility", "%s x=%r T=%r: user-supplied mobility functions (one per element): tracer diffusivity %r, R*T*M_e(T) of the supplied functions %r" % (name, x.tolist(), T, Dtr.tolist(), want.tolist()), user_supplied=True)
        if th.mobCallables.get(ph) is not None:
            out.label("mobility_model")
            xfull = np.concatenate([[1 - x.sum()], x])
            M = np.array(md.mobility[0][0], dtype=float) / xfull          # computeMobility multiplies by the u-fraction (all substitutional here)
            if not np.allclose(Dtr, R * T * M, rtol=1e-5, atol=0):
                out.fail("tracer_not_RT_mobility", "%s x=%r T=%r: tracer diffusivity %r, R*T*mobility %r" % (name, x.tolist(), T, Dtr.tolist(), (R * T * M).tolist()))
            MM = np.array(mobility_matrix(cset, th.mobCallables[ph], th.mobility_correction), dtype=float)
            cs_ = np.sum(MM, axis=0)
            if np.any(np.abs(cs_) > 1e-9 * np.max(np.abs(MM))):
                out.fail("volume_fixed_frame", "%s x=%r T=%r: substitutional rows of the mobility matrix sum to %r per column (should vanish)" % (name, x.tolist(), T, cs_.tolist()))
            if n == 1 and ok_fd:
                xa, xb = xfull[0], xfull[1]
                darken = (xb * Dtr[0] + xa * Dtr[1]) * xa * xb / (R * T) * FD[0, 0]
                if not np.isclose(D[0, 0], darken, rtol=5e-4, atol=0):
                    out.fail("darken_relation", "%s x=%r T=%r: interdiffusivity %r, Darken combination of tracer diffusivities and finite-difference curvature %r" % (name, x.tolist(), T, D[0, 0], darken))
    finally:
        if corr:
            th.setMobilityCorrection("all", 1)
            th.clearCache()
        if um and saved_mob is not None:
            th.mobCallables[ph] = saved_mob
            th.clearCache()
        sys.stdout = so
    out.nt(bool(np.all(x >= 1e-3)))
    return out


@st.composite
def _pt(draw):
    name = draw(st.sampled_from(sorted(SYSTEMS)))
    _, els, phs, rng, Tr = SYSTEMS[name]
    x = []
    for lo, hi in rng:
        if hi / lo > 50:
            x.append(10 ** draw(st.floats(np.log10(lo), np.log10(hi))))
        else:
            x.append(draw(st.floats(lo, hi)))
    case = {"system": name, "x": x, "T": draw(st.floats(*Tr))}
    if draw(st.integers(0, 3)) == 3:
        # mobility correction factors (setMobilityCorrection): for all elements and/or single ones
        corr = {}
        if draw(st.booleans()):
            corr["all"] = 10 ** draw(st.floats(-1, 1))
        for i in range(len(els)):
            if draw(st.integers(0, 2)) == 0:
                corr[str(i)] = 10 ** draw(st.floats(-1, 1))
        if corr:
            case["corr"] = corr
    if draw(st.integers(0, 5)) == 0:
        # mobility of every element supplied by the user as an Arrhenius function of temperature
        case["user_mob"] = [[10 ** draw(st.floats(-12, -8)), draw(st.floats(100e3, 300e3))] for _ in els]
        case["user_mob_reversed"] = draw(st.booleans())
    return case


def clauses():
    return [
        Clause("points", _pt, check_point, quick=320, thorough=15000, shrink=False,
               rule="generator: system in {Ni-Cr-Al fcc, Ni-Cr fcc, Ni-Al fcc, Fe-Cr-Ni fcc, Fe-Cr-Ni bcc, Al-Zr fcc, Al-Mg-Si fcc, Cu-Ti fcc} x composition over the matrix-phase field x temperature; points where the global equilibrium is not the matrix phase alone are counted and skipped; "
                    "oracle: dMudX = central finite differences of the equilibrium chemical potentials, symmetric, positive definite; interdiffusivity eigenvalues real positive; tracer diffusivities positive and = R*T*mobility (two code paths; 1 point in 6 with the mobility of every element supplied by the user as an Arrhenius function through setMobility(dict), judged against those functions); Darken relation for binaries; substitutional mobility-matrix rows sum to zero; non-trivial: accepted point with every solute fraction >= 1e-3"),
    ]
