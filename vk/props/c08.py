"""C08 — size-class grid operations stay consistent and conserve particle volume.

Clause `history`: generated operation sequences (model-based): every operation is applied to a
PopulationBalanceModel and to a small reference model of what must be true afterwards;
invariants are evaluated after every step.
Clause `moments`: every ...FromN function against the scalar reference on (N, grid) with a
*different* distribution stored in the object.
"""
import math

import numpy as np
from hypothesis import strategies as st

from ..core import Clause, Out
from ..refs import pbm as ref

LEVEL = "exploration"
ASSUMPTIONS = [
    "revert() without a backup taken since the last reset/re-mesh (the code documents the backup as overwritten by reset) is only required to leave a valid grid; with a backup it must restore it exactly",
    "constructor arguments keep 4 <= minBins <= maxBins, cMin > 0, and every requested class count exceeds minBins/2 (below that the automatic adjustment indexes past the grid: IndexError, treated as outside the admissible domain, see DESIGN.md)",
    "'covers the populated range' = the new grid contains every class holding a non-zero population",
    "recording is not part of this state machine (it is exercised through the precipitation model in C02/C20)",
]


def _newN(kind, args, bins):
    i = np.arange(bins)
    if kind == "peak":
        c, w, logA, tail = args
        n = 10 ** logA * np.exp(-(((i + 0.5) / bins - c) / w) ** 2)
        if tail:
            n[-1] = max(n[-1], 10 ** tail)
        return n
    if kind == "pattern":
        pat, off = args
        vals = [0.0 if p is None else 10 ** p for p in pat]
        return np.array([vals[(k + off) % len(vals)] for k in range(bins)], dtype=float)
    if kind == "single":
        pos, logA = args
        n = np.zeros(bins)
        n[min(bins - 1, int(pos * bins))] = 10 ** logA
        return n
    raise ValueError(kind)


def _populated_range(p):
    nz = np.nonzero(p.PSD)[0]
    if len(nz) == 0:
        return None
    return p.PSDbounds[nz[0]], p.PSDbounds[nz[-1] + 1]


def _invariants(p, out, step, opname):
    b, c, n = np.asarray(p.PSDbounds), np.asarray(p.PSDsize), np.asarray(p.PSD)
    ok = True
    def fail(kind, msg):
        nonlocal ok
        ok = False
        out.fail(kind, "after step %d (%s): %s" % (step, opname, msg), step=step, op=opname)
    if len(n) != p.bins or len(b) != p.bins + 1 or len(c) != p.bins:
        fail("length_mismatch", "bins=%r len(PSD)=%d len(bounds)=%d len(centres)=%d" % (p.bins, len(n), len(b), len(c)))
        return False
    if not np.all(np.diff(b) > 0):
        fail("bounds_not_increasing", "class boundaries are not strictly increasing")
    if not (math.isclose(b[0], p.min, rel_tol=1e-12) and math.isclose(b[-1], p.max, rel_tol=1e-12)):
        fail("bounds_vs_minmax", "bounds run %r..%r but min/max are %r/%r" % (b[0], b[-1], p.min, p.max))
    if not np.allclose(c, 0.5 * (b[:-1] + b[1:]), rtol=1e-12, atol=0):
        fail("centres_not_midpoints", "class centres are not the midpoints of the boundaries")
    if not np.all(np.isfinite(n)):
        fail("psd_not_finite", "distribution contains non-finite values")
    elif np.any(n < 0):
        fail("psd_negative", "distribution has negative populations (min %r)" % float(n.min()))
    if ok:
        # "every moment function evaluated on a supplied distribution depends only on that distribution and the grid" - also after
        # the grid has been through a history (caches of powers of the class centres must follow every grid change)
        probe = np.arange(1.0, len(c) + 1.0)
        for k in (0, 1, 2, 3):
            want = float(np.sum(probe * c ** k))
            got = float(p.MomentFromN(probe, k))
            gotc = np.asarray(p.CumulativeMomentFromN(probe, k), dtype=float)
            gotw = float(p.WeightedMomentFromN(probe, k, np.full(len(c), 2.0)))
            if not (math.isclose(got, want, rel_tol=1e-12) and gotc.shape == c.shape and math.isclose(float(gotc[-1]), want, rel_tol=1e-12) and math.isclose(gotw, 2 * want, rel_tol=1e-12)):
                fail("moment_after_history", "moment of order %d of a supplied distribution: MomentFromN %r, cumulative %r, weighted/2 %r; sum over the current grid %r" % (k, got, float(gotc[-1]) if gotc.shape == c.shape else gotc.shape, gotw / 2, want))
                break
    return ok


def check_history(case):
    from kawin.precipitation.PopulationBalance import PopulationBalanceModel
    out = Out()
    c = case["ctor"]
    p = PopulationBalanceModel(c["cmin"], c["cmax"], c["bins"], c["minBins"], c["maxBins"])
    p.setAdaptiveBinSize(c["adaptive"])
    adaptive = c["adaptive"]
    ctor_bounds = np.linspace(c["cmin"], max(10 * c["cmin"], c["cmax"]), c["bins"] + 1)
    backup = None
    populated_once = False
    grid_changed_after_pop = False
    restore_after_change = False
    _invariants(p, out, -1, "constructor")
    for step, op in enumerate(case["ops"]):
        name = op[0]
        b0, n0, bins0 = p.PSDbounds.copy(), p.PSD.copy(), p.bins
        v0 = ref.moment(n0, 0.5 * (b0[:-1] + b0[1:]), 3)
        if name == "update":
            newN = _newN(op[1], op[2], p.bins)
            expect = newN.copy()
            expect[expect < 1] = 0
            p.UpdatePBMEuler(float(step), newN.copy())
            if not np.array_equal(p.PSD, expect):
                out.fail("update_mismatch", "step %d: UpdatePBMEuler did not store the new distribution with classes < 1 removed" % step)
            if np.any(expect > 0):
                populated_once = True
        elif name == "loadfunc":
            cen, wid, logA = op[1], op[2], op[3]
            lo, hi = p.PSDbounds[0], p.PSDbounds[-1]
            f = lambda R: 10 ** logA * np.exp(-((R - (lo + cen * (hi - lo))) / (wid * (hi - lo))) ** 2)
            p.LoadDistributionFunction(f)
            if not np.allclose(p.PSD, f(0.5 * (b0[:-1] + b0[1:])), rtol=1e-12, atol=0):
                out.fail("loadfunc_mismatch", "step %d: LoadDistributionFunction is not the function at the class centres" % step)
            populated_once = populated_once or bool(np.any(p.PSD > 0))
        elif name == "load":
            lo, hi = p.PSDbounds[0], p.PSDbounds[-1]
            data = [lo + f * (hi - lo) for f in op[1]]
            p.LoadDistribution(np.array(data))
            inside = sum(1 for d in data if lo <= d <= hi)
            if abs(float(np.sum(p.PSD)) - inside) > 0:
                out.fail("load_count", "step %d: loaded %d radii inside the grid, distribution sums to %r" % (step, inside, float(np.sum(p.PSD))))
            if not np.allclose(p.PSDbounds, b0, rtol=1e-15, atol=0):
                out.fail("load_changed_grid", "step %d: LoadDistribution changed the class boundaries" % step)
            populated_once = populated_once or inside > 0
        elif name == "add":
            k = op[1]
            p.addSizeClasses(k)
            if p.bins != bins0 + k:
                out.fail("extend_count", "step %d: added %d classes, count went %d -> %d" % (step, k, bins0, p.bins))
            else:
                if not np.allclose(p.PSDbounds[:bins0 + 1], b0, rtol=1e-12, atol=0):
                    out.fail("extend_moved_bounds", "step %d: extending the grid moved existing class boundaries (max rel %.2e)" % (step, float(np.max(np.abs(p.PSDbounds[:bins0 + 1] / b0 - 1)))))
                if not np.array_equal(p.PSD[:bins0], n0):
                    out.fail("extend_changed_psd", "step %d: extending the grid changed existing populations" % step)
                if np.any(p.PSD[bins0:] != 0):
                    out.fail("extend_new_not_empty", "step %d: appended classes are not empty" % step)
                w0 = b0[1] - b0[0]
                if not np.allclose(np.diff(p.PSDbounds), w0, rtol=1e-9, atol=0):
                    out.fail("extend_width", "step %d: appended classes do not have the existing class width" % step)
            if np.any(n0 > 0):
                grid_changed_after_pop = True
        elif name == "change":
            fmin, fmax, bins, resetflag = op[1], op[2], op[3], op[4]
            cmin = p.min * fmin
            cmax = p.max * fmax
            p.changeSizeClasses(cmin, cmax, bins, resetflag)
            backup = None
            emax = max(10 * cmin, cmax)
            nb = bins0 if bins is None else bins
            if p.bins != nb or not math.isclose(p.PSDbounds[0], cmin, rel_tol=1e-12) or not math.isclose(p.PSDbounds[-1], emax, rel_tol=1e-12):
                out.fail("remesh_grid", "step %d: requested grid %r..%r with %d classes, got %r..%r with %d" % (step, cmin, emax, nb, p.PSDbounds[0], p.PSDbounds[-1], p.bins))
            if resetflag:
                if np.any(p.PSD != 0):
                    out.fail("remesh_reset_not_empty", "step %d: changeSizeClasses(resetPSD=True) left particles" % step)
            else:
                _volume_check(out, p, step, "changeSizeClasses", b0, n0, v0)
            if np.any(n0 > 0):
                grid_changed_after_pop = True
        elif name == "adjust":
            change, newIdx = p.adjustSizeClassesEuler(op[1])
            changed = (p.bins != bins0) or (len(p.PSDbounds) != len(b0)) or (not np.array_equal(p.PSDbounds, b0))
            if bool(change) != bool(changed):
                out.fail("adjust_change_flag", "step %d: adjustSizeClassesEuler returned change=%r but the grid %s" % (step, change, "changed" if changed else "did not change"))
            if adaptive and p.bins > p.maxBins:
                out.fail("adjust_exceeds_max", "step %d: adaptive binning left %d classes, maximum is %d" % (step, p.bins, p.maxBins))
            if changed:
                remeshed = not (len(p.PSDbounds) > len(b0) and np.allclose(p.PSDbounds[:len(b0)], b0, rtol=1e-12, atol=0))
                if remeshed:
                    backup = None
                    if newIdx is not None:
                        out.fail("adjust_new_indices", "step %d: grid was re-meshed but newIndices=%r (documented: None)" % (step, newIdx))
                    _volume_check(out, p, step, "adjustSizeClassesEuler", b0, n0, v0)
                    out.label("auto_remesh")
                else:
                    if newIdx != bins0:
                        out.fail("adjust_new_indices", "step %d: classes were appended after index %d but newIndices=%r" % (step, bins0, newIdx))
                    if not np.array_equal(p.PSD[:bins0], n0) or np.any(p.PSD[bins0:] != 0):
                        out.fail("extend_changed_psd", "step %d: automatic extension changed populations" % step)
                    out.label("auto_extend")
                if np.any(n0 > 0):
                    grid_changed_after_pop = True
        elif name == "backup":
            p.createBackup()
            backup = (p.PSD.copy(), p.PSDbounds.copy())
        elif name == "revert":
            if backup is None:
                # no backup was taken since the last reset / re-mesh: whatever revert() restores, the grid must stay a valid one
                # (the invariants after the step judge it; the content is not prescribed by the statement)
                p.revert()
                out.label("revert_without_backup")
                _invariants(p, out, step, "revert without backup")
                if np.any(n0 > 0):
                    grid_changed_after_pop = True
                continue
            p.revert()
            if not (np.array_equal(p.PSD, backup[0]) and np.array_equal(p.PSDbounds, backup[1])):
                out.fail("revert_mismatch", "step %d: revert did not restore the backed-up distribution and grid" % step)
            if grid_changed_after_pop:
                restore_after_change = True
        elif name == "reset":
            p.reset()
            backup = None
            if p.bins != c["bins"] or not np.allclose(p.PSDbounds, ctor_bounds, rtol=1e-14, atol=0) or np.any(p.PSD != 0):
                out.fail("reset_mismatch", "step %d: reset did not restore the constructor grid (%d classes %r..%r, got %d classes %r..%r)" % (step, c["bins"], ctor_bounds[0], ctor_bounds[-1], p.bins, p.PSDbounds[0], p.PSDbounds[-1]))
            if grid_changed_after_pop:
                restore_after_change = True
        elif name == "adaptive":
            adaptive = op[1]
            p.setAdaptiveBinSize(op[1])
        else:
            raise ValueError(name)
        out.label("op_" + name)
        if not _invariants(p, out, step, name):
            break
    out.nt(grid_changed_after_pop)
    if restore_after_change:
        out.label("restore_after_grid_change")
    if grid_changed_after_pop:
        out.label("grid_change_after_population")
    return out


def _volume_check(out, p, step, what, b0, n0, v0):
    nz = np.nonzero(n0)[0]
    if len(nz) == 0:
        if np.any(p.PSD != 0):
            out.fail("remesh_created_particles", "step %d: %s created particles from an empty distribution" % (step, what))
        return
    lo, hi = b0[nz[0]], b0[nz[-1] + 1]
    covered = p.PSDbounds[0] <= lo * (1 + 1e-12) and p.PSDbounds[-1] >= hi * (1 - 1e-12)
    if not covered:
        out.label("remesh_not_covering")
        return
    out.label("remesh_covering")
    v1 = ref.moment(p.PSD, p.PSDsize, 3)
    if not math.isclose(v1, v0, rel_tol=1e-9):
        r_old = 0.5 * (b0[:-1] + b0[1:])
        den = n0 / np.diff(b0)
        interp = np.interp(p.PSDsize, r_old, den)
        zero_interp = bool(np.all(interp == 0))
        out.fail("remesh_volume", "step %d: %s onto a grid covering the populated range changed the third moment %r -> %r" % (step, what, v0, v1),
                 zero_interp=zero_interp, step=step)


def check_moments(case):
    from kawin.precipitation.PopulationBalance import PopulationBalanceModel
    out = Out()
    p = PopulationBalanceModel(case["cmin"], case["cmax"], case["bins"])
    bins = p.bins
    N = _newN(*case["N"], bins)
    stored = _newN(*case["stored"], bins)
    p.PSD = stored.copy()
    order = case["order"]
    w = np.array([case["w"][k % len(case["w"])] for k in range(bins)])
    R = p.PSDsize
    N0 = N.copy()
    pairs = [
        ("MomentFromN", p.MomentFromN(N, order), ref.moment(N, R, order)),
        ("ZeroMomentFromN", p.ZeroMomentFromN(N), ref.moment(N, R, 0)),
        ("FirstMomentFromN", p.FirstMomentFromN(N), ref.moment(N, R, 1)),
        ("SecondMomentFromN", p.SecondMomentFromN(N), ref.moment(N, R, 2)),
        ("ThirdMomentFromN", p.ThirdMomentFromN(N), ref.moment(N, R, 3)),
        ("WeightedMomentFromN", p.WeightedMomentFromN(N, order, w), ref.moment(N, R, order, w)),
    ]
    for name, got, exp in pairs:
        if not math.isclose(got, exp, rel_tol=1e-10, abs_tol=1e-300):
            out.fail("moment_" + name, "%s(N) = %r, reference on (N, grid) = %r" % (name, got, exp))
    cpairs = [
        ("CumulativeMomentFromN", p.CumulativeMomentFromN(N, order), ref.cumulative_moment(N, R, order)),
        ("CumulativeWeightedMomentFromN", p.CumulativeWeightedMomentFromN(N, order, w), ref.cumulative_moment(N, R, order, w)),
    ]
    for name, got, exp in cpairs:
        got, exp = np.asarray(got, dtype=float), np.asarray(exp, dtype=float)
        if got.shape != exp.shape or not np.allclose(got, exp, rtol=1e-10, atol=1e-300):
            out.fail("moment_" + name, "%s(N) differs from the reference on (N, grid): last value %r vs %r" % (name, got[-1] if len(got) else None, exp[-1] if len(exp) else None))
    # the object's own moments are those of the stored distribution
    if not math.isclose(p.Moment(order), ref.moment(stored, R, order), rel_tol=1e-10, abs_tol=1e-300):
        out.fail("moment_Moment", "Moment(order) is not the moment of the stored distribution")
    own = [
        ("ZeroMoment", p.ZeroMoment(), ref.moment(stored, R, 0)), ("FirstMoment", p.FirstMoment(), ref.moment(stored, R, 1)),
        ("SecondMoment", p.SecondMoment(), ref.moment(stored, R, 2)), ("ThirdMoment", p.ThirdMoment(), ref.moment(stored, R, 3)),
        ("WeightedMoment", p.WeightedMoment(order, w), ref.moment(stored, R, order, w)),
    ]
    for name, got, exp in own:
        if not math.isclose(got, exp, rel_tol=1e-10, abs_tol=1e-300):
            out.fail("moment_Moment", "%s() = %r is not the moment of the stored distribution (%r)" % (name, got, exp), fn=name)
    for name, got, exp in (("CumulativeMoment", p.CumulativeMoment(order), ref.cumulative_moment(stored, R, order)),
                           ("CumulativeWeightedMoment", p.CumulativeWeightedMoment(order, w), ref.cumulative_moment(stored, R, order, w))):
        got, exp = np.asarray(got, dtype=float), np.asarray(exp, dtype=float)
        if got.shape != exp.shape or not np.allclose(got, exp, rtol=1e-10, atol=1e-300):
            out.fail("moment_Moment", "%s() differs from the cumulative moment of the stored distribution" % name, fn=name)
    if N.tobytes() != N0.tobytes() or p.PSD.tobytes() != stored.tobytes():
        out.fail("moment_side_effect", "a moment function modified N or the stored distribution")
    out.nt(bool(np.any(N > 0)) and not np.array_equal(N, stored))
    return out


# ---------------------------------------------------------------- generators

_newN_s = st.one_of(
    st.tuples(st.just("peak"), st.tuples(st.floats(0.0, 1.0), st.floats(0.02, 0.5), st.floats(0, 25), st.sampled_from([None, None, 0.5, 3.0, 10.0]))),
    st.tuples(st.just("pattern"), st.tuples(st.lists(st.one_of(st.none(), st.floats(-2, 25)), min_size=1, max_size=8), st.integers(0, 7))),
    st.tuples(st.just("single"), st.tuples(st.floats(0, 0.999), st.floats(-1, 25))),
).map(lambda t: [t[0], list(t[1])])


@st.composite
def _history(draw):
    cmin = 10 ** draw(st.floats(-11, -8))
    cmax = cmin * draw(st.sampled_from([2.0, 10.0, 10.0, 50.0, 100.0]))
    minB = draw(st.integers(4, 120))
    maxB = draw(st.integers(minB, 250))
    bins = draw(st.one_of(st.integers(minB, maxB), st.integers(max(4, minB // 2 + 1), 260)))     # >= 4: the grid is extended by int(bins/4) classes, which is none below 4
    ctor = {"cmin": cmin, "cmax": cmax, "bins": bins, "minBins": minB, "maxBins": maxB, "adaptive": draw(st.booleans())}
    op = st.one_of(
        _newN_s.map(lambda n: ["update", n[0], n[1]]),
        _newN_s.map(lambda n: ["update", n[0], n[1]]),
        st.tuples(st.floats(0, 1), st.floats(0.01, 0.5), st.floats(0, 25)).map(lambda t: ["loadfunc", t[0], t[1], t[2]]),
        st.lists(st.floats(-0.1, 1.1), min_size=0, max_size=30).map(lambda l: ["load", l]),
        st.integers(1, 60).map(lambda k: ["add", k]),
        st.tuples(st.sampled_from([1.0, 1.0, 0.5, 2.0, 0.1]), st.sampled_from([1.0, 0.3, 0.5, 0.8, 1.5, 3.0, 10.0]), st.one_of(st.none(), st.integers(minB // 2 + 1, 300)), st.sampled_from([False, False, False, True]))
            .map(lambda t: ["change", t[0], t[1], t[2], t[3]]),
        st.booleans().map(lambda f: ["adjust", f]),
        st.booleans().map(lambda f: ["adjust", f]),
        st.just(["backup"]), st.just(["revert"]), st.just(["reset"]),
        st.booleans().map(lambda f: ["adaptive", f]),
    )
    ops = draw(st.lists(op, min_size=2, max_size=30))
    return {"ctor": ctor, "ops": ops}


@st.composite
def _moment_case(draw):
    cmin = 10 ** draw(st.floats(-11, -8))
    return {"cmin": cmin, "cmax": cmin * draw(st.sampled_from([10.0, 100.0])), "bins": draw(st.integers(1, 120)),
            "N": draw(_newN_s), "stored": draw(_newN_s), "order": draw(st.sampled_from([0, 1, 2, 3, 0.5, 4])),
            "w": draw(st.lists(st.floats(0, 10), min_size=1, max_size=6))}


def pred_zero_interp(case, v):
    return bool(v.get("data", {}).get("zero_interp"))


PREDICATES = {"remesh_interpolates_to_zero": pred_zero_interp}


def clauses():
    return [
        Clause("history", _history, check_history, quick=16000, thorough=400000,
               rule="generator: constructor (cMin, span, bins 4-260, minBins<=maxBins, adaptive) + 1-30 operations from {update(new distribution: peak/pattern/single, incl. <1 and a filled last class), loadfunc, load(data), add(k), "
                    "changeSizeClasses(min x{0.1..2}, max x{0.3..10}, bins None|1-300, reset), adjust(flag), backup, revert, reset, setAdaptive}; invariants after every step, post-conditions per operation; "
                    "non-trivial: a grid change (extend / re-mesh / automatic adjustment) after populations were set; sequences with a later revert/reset are labelled restore_after_grid_change"),
        Clause("moments", _moment_case, check_moments, quick=8000, thorough=200000,
               rule="generator: grid x supplied distribution N x different stored distribution x order {0,0.5,1,2,3,4} x weights; every ...FromN function vs scalar reference on (N, grid); non-trivial: N populated and different from the stored one"),
    ]
