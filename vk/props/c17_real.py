"""C17 on the shipped databases: post-processing addresses phases by name; repeated evaluation; cache on/off."""
import importlib
import io
import sys

import numpy as np
from hypothesis import strategies as st

from ..core import Clause, Out
from .. import realdb

RULES = ["wiener upper", "wiener lower", "hashin upper", "hashin lower", "lab"]


def _ref(md_mob, md_phases, md_fracs, rule, labf, post, post_arg):
    """Reference written against phase NAMES."""
    HP = importlib.import_module("kawin.diffusion.HomogenizationParameters")
    mob = np.array(md_mob, dtype=float)
    fr = np.array(md_fracs, dtype=float)
    names = [str(p) for p in md_phases]
    if post == "predefined":
        if post_arg in names:
            a = names.index(post_arg)
            for j in range(mob.shape[1]):
                col = mob[:, j]
                col[col == -1] = mob[a, j]
    elif post == "majority":
        a = int(np.argmax(fr))
        for j in range(mob.shape[1]):
            col = mob[:, j]
            col[col == -1] = mob[a, j]
    elif post == "exclude":
        for nme in post_arg:
            if nme in names:
                fr[names.index(nme)] = 0
    fn = {"wiener upper": HP.wienerUpper, "wiener lower": HP.wienerLower, "hashin upper": HP.hashinShtrikmanUpper, "hashin lower": HP.hashinShtrikmanLower, "lab": HP.labyrinth}[rule]
    return np.asarray(fn(mob, fr, labyrinth_factor=labf), dtype=float)


def check_post(case):
    HP = importlib.import_module("kawin.diffusion.HomogenizationParameters")
    from kawin.diffusion.DiffusionParameters import computeMobility, HashTable
    out = Out()
    th = realdb.get(case["db"])
    x, T = list(case["x"]), case["T"]
    so = sys.stdout
    sys.stdout = io.StringIO()
    try:
        md = computeMobility(th, x, T)
        names = [str(p) for p in md.phases[0]]
        mob0, fr0 = np.array(md.mobility[0]), np.array(md.phase_fractions[0])
        post, arg = case["post"], case["post_arg"]
        if case.get("via_setters"):
            # the same configuration entered through the setter functions (as HomogenizationModel's wrappers do)
            hp = HP.HomogenizationParameters()
            hp.setHomogenizationFunction(case["rule"])
            hp.setLabyrinthFactor(case["lab"])
            hp.setPostProcessFunction(post, arg)
        else:
            hp = HP.HomogenizationParameters(case["rule"], labyrinthFactor=case["lab"], postProcessFunction=post, postProcessArgs=arg)
        exp = _ref(mob0, names, fr0, case["rule"], case["lab"], post, arg)
        results = []
        shared = HashTable()
        for use_cache in (False, True, True):
            ht = None if not use_cache else (shared if case["shared_cache"] else HashTable())
            try:
                r, mu = HP.computeHomogenizationFunction(th, x, T, hp, ht)
            except Exception as e:
                sys.stdout = so
                out.fail("post_process_raised:%s" % type(e).__name__, "%s post-processing %r raised %s: %s at x=%r T=%r (stable phases %r, database phase order %r)" % (post, arg, type(e).__name__, e, x, T, names, th.phases), single=len(names) == 1)
                return out
            results.append(np.asarray(r, dtype=float))
        # the cache must not remember the post-processing: the same point under a different mode, through the same table
        if case["shared_cache"]:
            other = "none" if post != "none" else "majority"
            hp2 = HP.HomogenizationParameters(case["rule"], labyrinthFactor=case["lab"], postProcessFunction=other, postProcessArgs=None)
            r2, _ = HP.computeHomogenizationFunction(th, x, T, hp2, shared)
            exp2 = _ref(mob0, names, fr0, case["rule"], case["lab"], other, None)
            if np.shape(r2) != np.shape(exp2) or not np.allclose(np.asarray(r2, dtype=float), exp2, rtol=1e-6, atol=0, equal_nan=True):
                out.fail("cache_remembers_postprocessing", "x=%r T=%r: after evaluating with %s(%r), the same point with post-processing %r through the same cache gives %r, cache-free reference %r" % (x, T, post, arg, other, np.asarray(r2).tolist(), exp2.tolist()))
            md2 = computeMobility(th, x, T, shared)
            if not np.allclose(np.asarray(md2.phase_fractions[0], dtype=float), fr0, rtol=1e-9, atol=0) or not np.array_equal(np.asarray(md2.mobility[0]), mob0):
                out.fail("cached_data_modified", "x=%r T=%r: per-phase data read back through the cache after %s(%r): fractions %r / uncached %r" % (x, T, post, arg, np.asarray(md2.phase_fractions[0]).tolist(), fr0.tolist()))
    finally:
        sys.stdout = so
    for k, r in enumerate(results):
        if r.shape != exp.shape or not np.allclose(r, exp, rtol=1e-6, atol=0, equal_nan=True):
            out.fail("wrong_phase_addressed", "%s(%r) with rule %s at x=%r T=%r: got %r, rule applied to the phase(s) named by the user gives %r (stable phases %r fractions %r, database phase order %r)" % (post, arg, case["rule"], x, T, r.tolist(), exp.tolist(), names, fr0.tolist(), th.phases), evaluation=k)
            break
    if not all(np.array_equal(results[0], r, equal_nan=True) for r in results[1:]):
        out.fail("repeat_differs", "evaluating x=%r T=%r again (cache off / on / on) gives %r" % (x, T, [r.tolist() for r in results]))
    differs = names != [p for p in th.phases if p in names]
    out.label("stable_%d" % len(names), "post_" + post)
    if differs:
        out.label("stable_order_differs_from_db_order")
    out.nt(post != "none" and (differs or len(names) < len(th.phases)))
    return out


@st.composite
def _post_case(draw):
    db = draw(st.sampled_from(["fecrni", "fecrni", "fecrni_bccfirst", "fecrni_sigma", "nicral_gen"]))
    if db.startswith("fecrni"):
        x = [draw(st.floats(0.05, 0.5)), draw(st.floats(0.02, 0.35))]
        T = draw(st.floats(900, 1500))
        phases = ["FCC_A1", "BCC_A2"] + (["SIGMA"] if db.endswith("sigma") else [])
    else:
        x = [draw(st.floats(0.05, 0.45)), draw(st.floats(0.02, 0.25))]
        T = draw(st.floats(1000, 1500))
        phases = ["FCC_A1", "BCC_A2"]
    post = draw(st.sampled_from(["none", "predefined", "majority", "exclude", "exclude"]))
    arg = None
    if post == "predefined":
        arg = draw(st.sampled_from(phases))
    elif post == "exclude":
        arg = draw(st.lists(st.sampled_from(phases), min_size=1, max_size=2, unique=True))
    return {"db": db, "x": x, "T": T, "rule": draw(st.sampled_from(RULES)), "lab": draw(st.sampled_from([1.0, 1.5, 2.0])), "post": post, "post_arg": arg, "shared_cache": draw(st.sampled_from([True, True, False])), "via_setters": draw(st.booleans())}


def clauses():
    return [
        Clause("postprocess_real", _post_case, check_post, quick=160, thorough=5000, shrink=False,
               rule="generator: Fe-Cr-Ni (fcc+bcc, listed in both orders, and with sigma which has no mobility data) and Ni-Cr-Al (fcc+bcc) compositions/temperatures over single- and two-phase regions x 5 rules x post-processing {none, predefined(P), majority, exclude([P..])}; each point evaluated with the cache off, on, and on again; "
                    "oracle: the rule applied to computeMobility's per-phase data with post-processing addressed by phase name; non-trivial: post-processing active where the stable phase order differs from the database order or fewer phases are stable than listed"),
    ]
