"""C13 (diffusion part): the temperatures requested from the backend at each stage equal the schedule at the stage time and node position."""
import io
import sys

import numpy as np
from hypothesis import strategies as st

from ..core import Clause, Out
from .. import harness_diff as HD
from . import c04


def check_diff_T(sc):
    out = Out()
    if sc["model"] == "homog":
        return _check_homog_T(sc, out)
    so = sys.stdout
    sys.stdout = io.StringIO()
    try:
        m, therm = HD.build(sc)
        m.useCache(False)          # every node is evaluated at every stage
        it = HD.CapIter(sc["iterator"], sc["cap"])
        try:
            for dur in sc["durations"]:
                m.solve(dur, solverType=it, minDtFrac=1e-10)
        except HD.StepCap:
            pass
        except Exception as e:
            if "sum up to above 1" not in str(e):
                raise
            out.label("left_simplex_rejected")      # documented rejection of a profile that left the simplex (see C04)
            return out
    finally:
        sys.stdout = so
    Tfn = HD.temperature_fn(sc["T"])
    z = m.z
    N = sc["N"]
    log = therm.log
    stage_times = [t for st_ in it.stage_times for t in st_]
    if len(log) != N * len(stage_times):
        out.fail("backend_call_count", "cache switched off: %d backend calls for %d stage evaluations x %d nodes" % (len(log), len(stage_times), N))
        return out
    bad = 0
    for k, ts in enumerate(stage_times):
        exp = np.asarray(Tfn(z, ts), dtype=float)
        got = np.array([log[k * N + i][1] for i in range(N)])
        if not np.array_equal(got, exp):
            bad += 1
            if bad == 1:
                i = int(np.argmax(got != exp))
                out.fail("backend_temperature", "stage %d at t=%r node %d (z=%r): backend asked for T=%r, schedule gives %r" % (k, ts, i, z[i], got[i], exp[i]))
    out.label("T_" + sc["T"][0], sc["iterator"], "T_api_" + sc.get("T_api", "model"), *(["after_prior_schedule"] if sc.get("T_prior") else []))
    out.nt(sc["T"][0] != "const" and len(stage_times) >= 3)
    return out


def _check_homog_T(sc, out):
    """Homogenization model: the temperatures handed to the mobility/chemical-potential provider (replaced by a logging synthetic one)."""
    import kawin.diffusion.Homogenization as HM
    orig = HM.computeHomogenizationFunction
    inner = HD.synthetic_homogenization(len(sc["elements"]), sc["M0"], sc["Qm"])
    calls = []

    def provider(therm, x, T, params, hashTable=None):
        calls.append(np.array(T, dtype=float).copy())
        return inner(therm, x, T, params, hashTable)
    HM.computeHomogenizationFunction = provider
    so = sys.stdout
    sys.stdout = io.StringIO()
    try:
        m, therm = HD.build(sc)
        it = HD.CapIter(sc["iterator"], sc["cap"])
        try:
            for dur in sc["durations"]:
                m.solve(dur, solverType=it, minDtFrac=1e-10)
        except HD.StepCap:
            pass
        except Exception as e:
            if "sum up to above 1" in str(e):      # documented rejection of a profile that left the simplex (see C04)
                out.label("left_simplex_rejected")
                return out
            if not (isinstance(e, ValueError) and "zero-size array" in str(e)):
                raise
            # a uniform closed system has no flux at all: the homogenization model cannot derive a time step from it - outside the admissible domain (see C04)
            out.label("uniform_closed_homogenization_skipped")
            return out
    finally:
        sys.stdout = so
        HM.computeHomogenizationFunction = orig
    Tfn = HD.temperature_fn(sc["T"])
    stage_times = [t for st_ in it.stage_times for t in st_]
    if len(calls) != len(stage_times):
        out.fail("backend_call_count", "homogenization model: %d provider calls for %d stage evaluations" % (len(calls), len(stage_times)))
        return out
    for k, ts in enumerate(stage_times):
        exp = np.asarray(Tfn(m.z, ts), dtype=float)
        if calls[k].shape != exp.shape or not np.array_equal(calls[k], exp):
            i = int(np.argmax(calls[k] != exp)) if calls[k].shape == exp.shape else 0
            out.fail("backend_temperature", "homogenization model, stage %d at t=%r node %d: provider asked for T=%r, schedule gives %r" % (k, ts, i, calls[k].ravel()[i] if calls[k].size else None, exp[i]))
            break
    out.label("T_" + sc["T"][0], sc["iterator"], "homogenization", "T_api_" + sc.get("T_api", "model"), *(["after_prior_schedule"] if sc.get("T_prior") else []))
    out.nt(sc["T"][0] != "const" and len(stage_times) >= 3)
    return out


@st.composite
def _sc(draw):
    sc = draw(c04._scenario(cap=40))
    if sc["model"] != "homog" or "M0" not in sc:
        sc["model"] = "single"
    if sc["T"][0] == "const" and draw(st.integers(0, 3)) > 0:
        T0 = sc["T"][1]
        total = sum(sc["durations"])
        L = sc["zlim"][1] - sc["zlim"][0]
        sc["T"] = draw(st.sampled_from([["array", [0.0, total / 3600 * 0.7], [T0, T0 + 80.0]], ["field", T0, 60.0, 30.0 / max(total, 1e-30), L]]))
    # which entry point installs the schedule (model setters / parameter object given to the constructor / typed setters of the model's
    # parameter object), and 0-2 other schedules set on the same model before it
    sc["T_api"] = draw(st.sampled_from(["model", "model", "ctor", "params"]))
    if sc["T_api"] != "ctor" and draw(st.booleans()):
        T0 = sc["T"][1] if sc["T"][0] in ("const", "field") else sc["T"][2][0]
        total = sum(sc["durations"])
        L = sc["zlim"][1] - sc["zlim"][0]
        sc["T_prior"] = [draw(st.sampled_from([["const", T0 + 25.0], ["array", [0.0, total / 3600], [T0 - 20.0, T0 + 40.0]], ["field", T0 + 10.0, -40.0, 10.0 / max(total, 1e-30), L]]))
                         for _ in range(draw(st.integers(1, 2)))]
    return sc


def clauses():
    return [
        Clause("diffusion_T", _sc, check_diff_T, quick=600, thorough=15000, shrink=False,
               rule="generator: single-phase (2 in 3) and homogenization stub diffusion scenarios with constant / break-point / field T(z,t) schedules installed through the model setters, a parameter object given to the constructor or the typed setters of the model's parameter object, optionally after 1-2 other schedules on the same model, cache off, both iterators; every backend call is compared with the schedule at the recorded stage time and node coordinate (exact); non-trivial: non-constant schedule and >= 3 stage evaluations"),
    ]
