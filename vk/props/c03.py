"""C03 — precipitation runs are well formed for every configuration and survive backend faults."""
import traceback

import numpy as np
from hypothesis import strategies as st

from ..core import Clause, Out
from .. import harness_kwn as H, scen, faults

LEVEL = "fault_enumeration"
ASSUMPTIONS = [
    "faults are scripted sets of call indices, counted after the first valid value of the same channel (the property speaks of continuing from the last valid values)",
    "fault channels: multicomponent growth/interfacial-composition query returning None, impingement factor falling back to its last value; binary: a whole-grid interfacial-composition query answered with the documented -1 'unstable' sentinel for every size, and the planar-interface query of a table build answered with (None, None) (the wording of the real class's docstring; the model accepts both) followed by a failed whole-grid query of the same build (partial sentinels for larger radii only are not generated: instability is monotone in the Gibbs-Thomson energy, C12)",
    "'exactly the requested end time' read as within 2 ulp; runs truncated by the harness step cap are judged on the steps they completed",
]
ATTRS = ["time", "temperature", "composition", "xEqAlpha", "xEqBeta", "drivingForce", "impingement", "Gcrit", "Rcrit", "nucRate", "precipitateDensity", "Rnuc", "Ravg", "ARavg", "volFrac", "fconc"]


def wellformed(out, model, t_end=None, truncated=False, tag=""):
    pd = model.pData
    n = len(pd.time)
    for a in ATTRS:
        arr = np.asarray(getattr(pd, a))
        if arr.shape[0] != n:
            out.fail("misaligned_histories", "%s%s has %d rows, time has %d" % (tag, a, arr.shape[0], n), attr=a)
        elif not np.all(np.isfinite(arr)):
            i = int(np.argwhere(~np.isfinite(arr))[0][0])
            out.fail("non_finite_history", "%s%s is not finite first at step %d (%r)" % (tag, a, i, arr[i].tolist()), attr=a, step=i)
    t = np.asarray(pd.time, dtype=float)
    if n > 1 and not np.all(np.diff(t) > 0):
        i = int(np.argmin(np.diff(t) > 0))
        out.fail("time_not_increasing", "%stime stamps not strictly increasing at step %d: %r -> %r" % (tag, i, t[i], t[i + 1]))
    if t_end is not None and not truncated:
        if abs(t[-1] - t_end) > 2 * np.spacing(abs(t_end)):
            out.fail("end_time", "%srun ended at %r, requested %r" % (tag, t[-1], t_end))
    for p, pb in enumerate(model.PBM):
        psd = np.asarray(pb.PSD, dtype=float)
        if not np.all(np.isfinite(psd)):
            out.fail("psd_not_finite", "%sphase %d size distribution contains non-finite values" % (tag, p))
        elif np.any(psd < 0):
            out.fail("psd_negative", "%sphase %d size distribution has negative classes (min %r)" % (tag, p, float(psd.min())))
        if len(psd) != pb.bins or len(pb.PSDbounds) != pb.bins + 1:
            out.fail("psd_shape", "%sphase %d distribution/grid lengths inconsistent" % (tag, p))
    vf = np.asarray(pd.volFrac, dtype=float)
    if np.all(np.isfinite(vf)):
        if np.any(vf < 0) or np.any(vf > 1 + 1e-12):
            i = int(np.argwhere((vf < 0) | (vf > 1 + 1e-12))[0][0])
            out.fail("volfrac_range", "%svolume fraction outside [0,1] at step %d: %r" % (tag, i, vf[i].tolist()), step=i)
        tot = np.sum(vf, axis=1)
        if np.any(tot > 1 + 1e-9):
            i = int(np.argmax(tot))
            out.fail("total_fraction_above_one", "%stotal precipitate fraction %r > 1 at step %d" % (tag, float(tot[i]), i), step=i, total=float(np.max(tot)))
    comp = np.asarray(pd.composition, dtype=float)
    if np.all(np.isfinite(comp)) and (np.any(comp < 0) or np.any(comp > 1)):
        i = int(np.argwhere((comp < 0) | (comp > 1))[0][0])
        out.fail("composition_range", "%smatrix composition outside [0,1] at step %d: %r" % (tag, i, comp[i].tolist()), step=i)
    for a in ("Ravg", "Rcrit", "precipitateDensity", "nucRate"):
        arr = np.asarray(getattr(pd, a), dtype=float)
        if np.all(np.isfinite(arr)) and np.any(arr < 0):
            i = int(np.argwhere(arr < 0)[0][0])
            out.fail("negative_" + a, "%s%s negative at step %d: %r" % (tag, a, i, arr[i].tolist()), step=i)


def _kawin_frame(tb):
    frames = [f for f in traceback.extract_tb(tb) if "/kawin/" in f.filename]
    if not frames:
        return None
    f = frames[-1]
    return "%s:%s" % (f.filename.split("/kawin/")[-1], f.name)


def run_checked(sc, therm=None):
    """Runs every solve call, checking well-formedness after each.  Kawin exceptions become violations."""
    out = Out()
    model, therm = H.build_model(sc, therm=therm)
    therm.model = model
    tap = H.StepTap(model, sc.get("iterator", "euler"), sc.get("cap", 300))
    seen = {"pop_fault_steps": 0}

    class Obs:
        def updateCoupledModel(self, m):
            pass
    model.addCouplingModel(Obs())
    t_end = 0.0
    truncated = False
    calls = list(enumerate(sc["durations"]))
    if sc.get("reset_rerun"):
        # the documented way to run the same model again: reset() (results cleared, parameters kept), then solve
        calls.append(("reset", sc["durations"][0]))
    while calls:
        k, dur = calls.pop(0)
        if k == "reset":
            # (also after a run that was cut off by the harness's step cap: the cap fires between steps, the model is intact)
            model.reset()
            truncated = False
            tap.steps = 0
            out.label("reset_and_rerun")
            k = len(sc["durations"])
            t_end = dur
        else:
            t_end = (model.pData.time[-1] if k else 0.0) + dur
        try:
            model.solve(dur, solverType=tap, minDtFrac=sc.get("minDtFrac", 1e-8), maxDtFrac=sc.get("maxDtFrac", 1))
        except H.StepCap:
            truncated = True
        except Exception as e:
            fr = _kawin_frame(e.__traceback__)
            if fr is None:
                raise
            out.fail("internal_error:%s:%s" % (type(e).__name__, fr), "solve call %d raised %s: %s\n%s" % (k, type(e).__name__, e, traceback.format_exc()[-1500:]), frame=fr, exc=type(e).__name__)
            out.info["model"] = model
            return out, model, tap, True
        wellformed(out, model, t_end=t_end, truncated=truncated, tag="after solve call %d: " % k)
        if out.viol or (truncated and not sc.get("reset_rerun")):
            break
        if truncated:
            calls = [c for c in calls if c[0] == "reset"]      # skip the remaining ordinary calls, go to the reset (if any)
    return out, model, tap, truncated


def check_wellformed(sc):
    out, model, tap, trunc = run_checked(sc)
    out.label(sc["system"], sc["iterator"], "phases_%d" % len(sc["phases"]), "T_" + sc["T"][0])
    if trunc:
        out.label("truncated")
    out.nt(tap.steps >= 50)
    return out


def check_faults_multi(case):
    sc = case["sc"]
    phases = {p["name"]: {"xb": p["xb"], "dH": p["dH"], "dS": p["dS"]} for p in sc["phases"]}
    therm = faults.FlakyToyMulti(["A"] + sc["solutes"], phases, D0=sc["D0"], Q=sc["Q"], growth_faults=case["growth_faults"], imp_faults=case["imp_faults"], warmup=2 * len(sc["phases"]) + 1)
    out, model, tap, trunc = run_checked(sc, therm=therm)
    inj = therm.injected
    out.label(sc["iterator"], "phases_%d" % len(sc["phases"]))
    if any(c == "growth" for c, _, _ in inj):
        out.label("growth_fault")
    if any(c == "growth" and dg is not None and dg > 0 for c, _, dg in inj):
        out.label("growth_fault_positive_dG")
    if any(c == "impingement" for c, _, _ in inj):
        out.label("impingement_fault")
    idx = sorted(i for c, i, _ in inj if c == "growth")
    if any(b - a == 1 for a, b in zip(idx[:-1], idx[1:])):
        out.label("consecutive_faults")
    pd = model.pData
    populated = bool(np.any(np.asarray(pd.volFrac) > 0))
    out.nt(any(c == "growth" and dg is not None and dg > 0 for c, _, dg in inj) and populated)
    out.info["injected"] = len(inj)
    return out


def check_faults_binary(case):
    sc = case["sc"]
    phases = {p["name"]: {"xb": p["xb"], "dH": p["dH"], "dS": p["dS"]} for p in sc["phases"]}
    therm = faults.FlakyToyBinary(phases, D0=sc["D0"], Q=sc["Q"], ic_faults=case["ic_faults"], planar_none=case.get("planar_none", ()))
    out, model, tap, trunc = run_checked(sc, therm=therm)
    out.label(sc["iterator"], "phases_%d" % len(sc["phases"]), "T_" + sc["T"][0])
    if any(c == "interfacial" for c, _, _ in therm.injected):
        out.label("interfacial_fault")
    if any(c == "planar_none" for c, _, _ in therm.injected):
        out.label("planar_query_answered_none")
    out.nt(bool(therm.injected) and bool(np.any(np.asarray(model.pData.precipitateDensity) > 0)))
    return out


def check_real(case):
    """Shipped databases: well-formedness, optionally with the multicomponent equilibrium step failing on a schedule
    (the documented 'equilibrium did not converge' path: _getCompositionSetsEq returns None)."""
    sc = case["sc"]
    th = H.build_therm(sc)
    injected = []
    orig = None
    if case.get("faults") and sc["system"] == "nicral":
        sched = set(case["faults"])
        orig = th._getCompositionSetsEq
        state = {"n": 0, "ok": 0}

        def flaky(x, T, precPhase, cached_composition_sets={}):
            r = orig(x, T, precPhase, cached_composition_sets)
            if r is None:
                return r
            state["ok"] += 1
            if state["ok"] <= 6:          # model set-up and first steps need valid values
                return r
            state["n"] += 1
            if state["n"] in sched:
                injected.append(state["n"])
                return None
            return r
        th._getCompositionSetsEq = flaky
    try:
        out, model, tap, trunc = run_checked(sc, therm=th)
    finally:
        if orig is not None:
            del th._getCompositionSetsEq
    out.label(sc["system"], sc["iterator"])
    if injected:
        out.label("equilibrium_fault_injected")
    if trunc:
        out.label("truncated")
    out.nt(tap.steps >= 30 and (not case.get("faults") or bool(injected)))
    return out


@st.composite
def _real_case(draw):
    sc = draw(scen.real_scenario(cap=80))
    faults = None
    if sc["system"] == "nicral" and draw(st.booleans()):
        faults = draw(_fault_set(horizon=300))
    return {"sc": sc, "faults": faults}


@st.composite
def _fault_set(draw, horizon=400):
    kind = draw(st.sampled_from(["sparse", "burst", "dense", "single", "early"]))
    if kind == "single":
        return [draw(st.integers(1, horizon))]
    if kind == "early":
        return sorted(set(draw(st.lists(st.integers(1, 12), min_size=1, max_size=6))))
    if kind == "burst":
        s = draw(st.integers(1, horizon))
        return list(range(s, s + draw(st.integers(2, 12))))
    dens = draw(st.floats(0.01, 0.1)) if kind == "sparse" else draw(st.floats(0.1, 0.5))
    n = max(1, int(dens * horizon))
    return sorted(set(draw(st.lists(st.integers(1, horizon), min_size=n, max_size=n))))


@st.composite
def _multi_fault_case(draw):
    sc = draw(scen.toy_multi_scenario(cap=200, allow_shapes=True))
    return {"sc": sc, "growth_faults": draw(_fault_set()), "imp_faults": draw(st.one_of(st.just([]), _fault_set()))}


@st.composite
def _binary_fault_case(draw):
    sc = draw(scen.toy_binary_scenario(cap=200, max_phases=2))
    if sc["T"][0] == "const" and draw(st.integers(0, 3)) > 0:      # whole-grid queries mostly happen on temperature changes and re-meshes
        sc["T"] = draw(scen.temperature_spec(sc["T"][1], sum(sc["durations"]), True))
    case = {"sc": sc, "ic_faults": draw(_fault_set(horizon=40))}
    if draw(st.booleans()):
        case["planar_none"] = draw(_fault_set(horizon=20))
    return case


@st.composite
def _wide_scenario(draw):
    if draw(st.integers(0, 2)) == 2:
        sc = draw(scen.toy_multi_scenario(cap=250, allow_shapes=True))
    else:
        sc = draw(scen.toy_binary_scenario(cap=300, allow_elastic=True))
    if draw(st.integers(0, 3)) == 3:
        sc["reset_rerun"] = True          # after the solve calls: reset() and one more run on the same model
    if sc["system"] == "toy_bin" and draw(st.integers(0, 9)) == 0:
        # a hold above the stability limit of every precipitate phase (the backend reports every size class unstable), run,
        # reset() and run again: nothing may precipitate and nothing may be recorded as NaN, in the first run or the second
        import math
        Thot = 0.0
        for p in sc["phases"]:
            den = p["dS"] - 8.314462618 * math.log(0.9 * p["xb"])
            if den > 0:
                Thot = max(Thot, p["dH"] / den)
        if 300.0 < Thot < 2500.0:
            sc["T"] = ["const", float(Thot * 1.05)]
            sc["reset_rerun"] = True
            sc.pop("T_calls", None)
    return sc


def pred_volume_limit_disabled(case, v):
    """The step-size limit on the volume change per step is switched off (constraints.checkVolumePre = False): nothing then bounds the
    volume a nucleation burst creates in one explicit step, the matrix is emptied (composition clamped), everything dissolves in
    the next step, and the bursts grow until the phases together claim more than the whole volume.  Each phase is capped at 1 by
    the model, so the total cannot exceed the number of phases."""
    sc = case.get("sc", case)
    cons = sc.get("constraints") or {}
    if cons.get("checkVolumePre", True) is not False:
        return False
    tot = (v.get("data") or {}).get("total")
    return tot is None or tot <= len(sc["phases"]) * (1 + 1e-12)


PREDICATES = {"volume_step_limit_disabled": pred_volume_limit_disabled}


def clauses():
    return [
        Clause("wellformed", _wide_scenario, check_wellformed, quick=200, thorough=3000, shrink=False,
               rule="generator: toy binary (1-3 phases) and toy ternary (1-2 phases) scenarios over the whole option product (alloys inside/outside the two-phase field, profiles, sites, shapes, fixed/adaptive grids, every dt constraint toggle, minDtFrac, both iterators, 1-3 solve calls, 1 in 4 followed by reset() and another run on the same model, 1 toy binary case in 10 as a hold above the stability limit of every precipitate phase with reset() and a second run), no faults; "
                    "oracle after every solve call: end time, strictly increasing times, 16 aligned finite histories, PSD >= 0, fractions and compositions in [0,1], total fraction <= 1, radii >= 0, no internal error; non-trivial: >= 50 steps"),
        Clause("faults_multi", _multi_fault_case, check_faults_multi, quick=160, thorough=3000, shrink=False,
               rule="generator: toy ternary scenario x scripted fault schedule {single, early, sparse, burst, dense up to 0.5/call} for the growth query (returns None) and optionally the impingement factor (falls back); same oracle; non-trivial: a growth fault injected while the driving force is positive in a run that holds precipitates"),
        Clause("faults_binary", _binary_fault_case, check_faults_binary, quick=100, thorough=2000, shrink=False,
               rule="generator: toy binary scenario x scripted schedule of interfacial-composition queries answered with the -1 sentinel for every size, and (1 in 2) a second schedule of planar-interface queries answered with (None, None) together with the table query of the same build; same oracle; non-trivial: a fault injected in a run that holds precipitates"),
        Clause("real_db", _real_case, check_real, quick=24, thorough=400, shrink=False,
               rule="generator: Al-Zr and Ni-Al-Cr scenarios on the shipped databases; for Ni-Al-Cr optionally a scripted schedule on which the equilibrium step (_getCompositionSetsEq) returns None, i.e. the documented 'did not converge' path of the real class; same well-formedness oracle; non-trivial: >= 30 steps (with an injected fault when a schedule is present)"),
    ]
