"""C18 — coupled strength and grain-growth models stay physical and aligned."""
import io
import math
import sys

import numpy as np
from hypothesis import strategies as st

from ..core import Clause, Out
from .. import harness_kwn as H, scen

LEVEL = "exploration"
ASSUMPTIONS = [
    "mixed-dislocation formulas are compared with the edge/screw formulas at rtol 5e-3 with the simple J factor (the mixed expressions carry rounded numerical prefactors)",
    "grain growth: mean size non-decreasing is judged at rtol 1e-4 per step on steps without a grid change (the upwind scheme renormalises the volume every step, which moves the grain count at the 1e-5 level on coarse grids: measured); steps on which the grid was extended or re-meshed are counted, not judged (the documented interpolation does not preserve the number of grains)",
    "coupled runs use the toy binary backend; both coupled models are attached before the first solve call",
]


class _FakeModel:
    def __init__(self, phases):
        self.phases = np.array(phases)


def _strength(case):
    from kawin.precipitation.coupling.Strength import StrengthModel
    p = case["par"]
    sm = StrengthModel()
    sm.setDislocationParameters(p["G"], p["b"], p["nu"], ri=p["ri"], theta=p["theta"], psi=p["psi"])
    sm.setTaylorFactor(p["M"])
    sm.setTmodel(p["Tmodel"])
    sm.setJfactor(p["Jmodel"])
    sm.setStrengthSuperpositionExponent(p["e1"], p["e2"], p["e3"], p["e4"])
    ph = lambda k: p["phase_of"].get(k, "all")
    if "eps" in p:
        sm.setCoherencyParameters(p["eps"], phase=ph("eps"))
    if "Gp" in p:
        sm.setModulusParameters(p["Gp"], phase=ph("Gp"))
    if "yAPB" in p:
        sm.setAPBParameters(p["yAPB"], phase=ph("yAPB"))
    if "ySFM" in p:
        sm.setSFEParameters(p["ySFM"], p["ySFP"], phase=ph("ySFM"))
    if "gamma" in p:
        sm.setInterfacialParameters(p["gamma"], phase=ph("gamma"))
    return sm


def check_strength(case):
    out = Out()
    sm = _strength(case)
    p = case["par"]
    r = np.array(case["r"], dtype=float)
    Ls = np.array(case["Ls"], dtype=float)
    r0, L0 = r.copy(), Ls.copy()
    phases = ["P0", "P1"]
    worst = {}
    for phname in phases:
        w, s, oro, names = sm.getStrengthContributions(r, Ls, phname)
        w, s, oro = np.atleast_2d(w) if len(w) else np.zeros((0, len(r))), np.atleast_2d(s) if len(s) else np.zeros((0, len(r))), np.asarray(oro, dtype=float)
        for nm, arr in (("weak", w), ("strong", s), ("orowan", oro)):
            if arr.size and not np.all(np.isfinite(arr)):
                out.fail("contribution_not_finite", "%s contribution(s) not finite for phase %s at r=%r Ls=%r" % (nm, phname, r.tolist(), Ls.tolist()), branch=nm)
            elif arr.size and np.any(arr < 0):
                idx = np.argwhere(arr < 0)[0]
                i = int(idx[-1])
                out.fail("contribution_negative", "%s contribution %r < 0 for phase %s at r=%r (ri=%r) Ls=%r" % (nm, float(arr[tuple(idx)]), phname, r[i], p["ri"], Ls[i]), branch=nm, subcore=bool(2 * r[i] < p["ri"]))
        comb, cmp_, parts = sm.combineStrengthContributions(w.copy(), s.copy(), oro.copy(), returnComparison=True)
        comb = np.asarray(comb, dtype=float)
        # the same contribution arrays combined a second time (another Taylor factor or exponent, the comparison flag): the
        # contributions are the caller's, finite ones must come back untouched and give the same strength again
        if w.size and s.size and np.all(np.isfinite(w)) and np.all(np.isfinite(s)) and np.all(np.isfinite(oro)):
            w2, s2, o2 = w.copy(), s.copy(), oro.copy()
            c_first = np.asarray(sm.combineStrengthContributions(w2, s2, o2), dtype=float)
            c_again = np.asarray(sm.combineStrengthContributions(w2, s2, o2), dtype=float)
            if w2.tobytes() != w.tobytes() or s2.tobytes() != s.tobytes() or o2.tobytes() != oro.tobytes():
                out.fail("inputs_modified", "combineStrengthContributions modified the (finite) contribution arrays passed to it (phase %s)" % phname, what="contributions")
            elif not np.array_equal(c_first, c_again):
                out.fail("not_min_of_branches", "phase %s: combining the same contributions twice gives %r, then %r" % (phname, c_first[:3].tolist(), c_again[:3].tolist()), what="repeat")
            out.label("contributions_combined_twice")
        e = p["e1"]
        wsum = np.zeros(len(r)) if w.shape[0] == 0 else np.power(np.sum(np.power(np.clip(w, 0, None), e), axis=0), 1 / e)
        ssum = np.zeros(len(r)) if s.shape[0] == 0 else np.power(np.sum(np.power(np.clip(s, 0, None), e), axis=0), 1 / e)
        ref = p["M"] * np.minimum(np.minimum(wsum, ssum), oro)
        if np.all(np.isfinite(ref)) and not np.allclose(comb, ref, rtol=1e-9, atol=1e-300, equal_nan=False):
            i = int(np.argmax(np.abs(comb - ref)))
            out.fail("not_min_of_branches", "phase %s r=%r: precipitate strength %r, M*min(weak,strong,Orowan) = %r" % (phname, r[i], comb[i], ref[i]))
        if not np.all(np.isfinite(comb)) or np.any(comb < 0):
            i = int(np.argmax(~np.isfinite(comb) | (comb < 0)))
            out.fail("precipitate_strength_invalid", "phase %s: combined precipitate strength %r at r=%r (ri=%r), Ls=%r" % (phname, comb[i], r[i], p["ri"], Ls[i]), subcore=bool(2 * r[i] < p["ri"]))
        zero = (r == 0) | (Ls == 0)
        if np.any(zero) and np.any(comb[zero] != 0):
            out.fail("strength_without_precipitates", "phase %s: precipitate strength %r with r=0 or Ls=0" % (phname, comb[zero].tolist()))
    # multi-phase combination and total strength through the public functions
    sm.rss = np.stack([r, r[::-1]], axis=1)
    sm.ls = np.stack([Ls, Ls[::-1]], axis=1)
    ps = np.asarray(sm.precStrength(_FakeModel(phases)), dtype=float)
    if not np.all(np.isfinite(ps)) or np.any(ps < 0):
        i = int(np.argmax(~np.isfinite(ps) | (ps < 0)))
        out.fail("precipitate_strength_invalid", "multi-phase precipitate strength %r at row %d (r=%r/%r, ri=%r)" % (ps[i], i, r[i], r[::-1][i], p["ri"]), subcore=bool(min(r[i], r[::-1][i]) * 2 < p["ri"]))
    # the recorded history evaluated again after a parameter was changed (no host step in between, as when exploring parameters after a
    # run): single-phase history, so the precipitate strength is M * min(branches) of that phase with the parameters in force at the call
    if case.get("M2"):
        sm.rss = r.reshape(-1, 1).copy()
        sm.ls = Ls.reshape(-1, 1).copy()
        one = _FakeModel(["P0"])
        ps_a = np.asarray(sm.precStrength(one), dtype=float)
        sm.setTaylorFactor(case["M2"])
        ps_b = np.asarray(sm.precStrength(one), dtype=float)
        w, s_, oro, _n = sm.getStrengthContributions(r, Ls, "P0")
        ref_b = np.asarray(sm.combineStrengthContributions(np.array(w, dtype=float, copy=True), np.array(s_, dtype=float, copy=True), np.array(oro, dtype=float, copy=True)), dtype=float)
        ok = np.isfinite(ps_a) & np.isfinite(ref_b)
        if ps_b.shape != ps_a.shape or not np.allclose(ps_b[ok], ps_a[ok] * (case["M2"] / p["M"]), rtol=1e-9, atol=0) or not np.allclose(ps_b[ok], ref_b[ok], rtol=1e-9, atol=0):
            out.fail("not_min_of_branches", "recorded history re-evaluated after setTaylorFactor(%r) (was %r): precipitate strength %r, before the change %r, M*min(branches) now %r" % (case["M2"], p["M"], ps_b[:3].tolist(), ps_a[:3].tolist(), ref_b[:3].tolist()), what="after_parameter_change")
        sm.setTaylorFactor(p["M"])
        out.label("history_reevaluated_after_parameter_change")
    ss = np.array(case["ss"], dtype=float)[:len(ps)]
    ss = np.resize(ss, len(ps))
    sm.setBaseStrength(case["sigma0"])
    tot = np.asarray(sm.totalStrength(ss, np.where(np.isfinite(ps) & (ps >= 0), ps, 0.0)), dtype=float)
    psc = np.where(np.isfinite(ps) & (ps >= 0), ps, 0.0)
    if not np.all(np.isfinite(tot)):
        out.fail("total_strength_invalid", "total strength not finite: %r" % tot.tolist())
    else:
        for nm, part in (("base", np.full(len(ps), case["sigma0"])), ("solid solution", ss), ("precipitate", psc)):
            if np.any(tot < part * (1 - 1e-12)):
                i = int(np.argmax(tot < part * (1 - 1e-12)))
                out.fail("total_below_part", "total strength %r < %s strength %r" % (tot[i], nm, part[i]))
        tot2 = np.asarray(sm.totalStrength(ss * 1.1 + 1.0, psc), dtype=float)
        tot3 = np.asarray(sm.totalStrength(ss, psc * 1.1 + 1.0), dtype=float)
        if np.any(tot2 < tot * (1 - 1e-12)) or np.any(tot3 < tot * (1 - 1e-12)):
            out.fail("total_not_monotone", "total strength decreased when a part was increased")
    if r.tobytes() != r0.tobytes() or Ls.tobytes() != L0.tobytes():
        out.fail("inputs_modified", "strength functions modified the radius/spacing arrays")
    sub = bool(np.any((r > 0) & (2 * r < p["ri"])))
    if sub:
        out.label("subcore_radius")
    out.nt(sub and bool(np.any(2 * r > p["ri"])))
    return out


def check_mixed(case):
    out = Out()
    p = dict(case["par"])
    p["Jmodel"] = "simple"
    r = np.array(case["r"], dtype=float)
    Ls = np.array(case["Ls"], dtype=float)
    ok = (r > 0) & (Ls > 0)
    r, Ls = r[ok], Ls[ok]
    if len(r) == 0:
        return out
    r0 = Ls
    pairs = []
    for theta, tag in ((90.0, "Edge"), (0.0, "Screw")):
        p["theta"] = theta
        sm = _strength({"par": p})
        def get(name):
            return getattr(sm, name)
        if "eps" in p:
            pairs += [("coherencyWeak", "coherencyWeak" + tag), ("coherencyStrong", "coherencyStrong" + tag)]
        if "Gp" in p:
            pairs += [("modulusWeak", "modulusWeak" + tag)]
        if "yAPB" in p:
            pairs += [("APBweak", "APBweak" + tag), ("APBstrong", "APBstrong" + tag)]
        if "ySFM" in p:
            pairs += [("SFEweak", "SFEweakNarrow" + tag), ("SFEstrong", "SFEstrongNarrow" + tag)]
        if "gamma" in p:
            pairs += [("interfacialWeak", "interfacialWeak" + tag)]
        for a, b in pairs:
            key = {"coherency": "eps", "modulus": "Gp", "APB": "yAPB", "SFE": "ySFM", "interfacial": "gamma"}[[k for k in ("coherency", "modulus", "APB", "SFE", "interfacial") if a.startswith(k)][0]]
            ph = p["phase_of"].get(key, "all")
            with np.errstate(all="ignore"):
                va = np.asarray(get(a)(r, Ls, r0, ph), dtype=float)
                vb = np.asarray(get(b)(r, Ls, r0, ph), dtype=float)
            fin = np.isfinite(va) & np.isfinite(vb)
            if np.any(fin) and not np.allclose(va[fin], vb[fin], rtol=5e-3, atol=1e-12 * (np.abs(vb[fin]).max() if np.any(fin) else 1)):
                i = int(np.argmax(np.abs(va[fin] / np.where(vb[fin] == 0, 1, vb[fin]) - 1)))
                out.fail("mixed_limit_mismatch", "%s at theta=%g: %r, %s: %r (r=%r Ls=%r)" % (a, theta, va[fin][i], b, vb[fin][i], r[fin][i], Ls[fin][i]), fn=a)
        pairs = []
    out.nt(True)
    return out


def check_grain(case):
    from kawin.precipitation.coupling.GrainGrowth import GrainGrowthModel
    from kawin.solver import SolverType
    out = Out()
    it = SolverType.EXPLICITEULER if case["iterator"] == "euler" else SolverType.RK4
    cmin = case["cmin"]
    m = GrainGrowthModel(cmin, cmin * case["span"], case["bins"], max(4, case["bins"] // 2 + 2), case["bins"] * 2, solverType=it)
    m.setGrainBoundaryEnergy(case["gbe"])
    m.setGrainBoundaryMobility(case["M"])
    if case.get("alpha", 1.0) != 1.0:
        m.setAlpha(case["alpha"])
        out.label("alpha_not_1")
    lo, hi = m.pbm.PSDbounds[0], m.pbm.PSDbounds[-1]
    f = lambda R: sum(a * np.exp(-(np.log(R / (lo + c * (hi - lo))) / w) ** 2) for a, c, w in case["modes"])
    if case.get("data"):
        m.LoadDistribution(np.array([lo + q * (hi - lo) for q in case["data"]]))
        out.label("loaded_from_data")
    else:
        m.LoadDistributionFunction(f)
    if case.get("pre_reset"):
        # an earlier run on the same model, then reset(): the documented way back to the loaded distribution
        gpre = m.grainGrowth(m.pbm.PSD)
        if np.max(np.abs(gpre)) > 0:
            so = sys.stdout
            sys.stdout = io.StringIO()
            try:
                m.solve(0.4 * (m.pbm.PSDbounds[1] - m.pbm.PSDbounds[0]) / np.max(np.abs(gpre)) * case["pre_reset"], solverType=it)
            finally:
                sys.stdout = so
        m.reset()
        out.label("after_reset")
    z = case["z"]
    m._z = z
    # pure function: constrained growth
    g = m.grainGrowth(m.pbm.PSD)
    # the documented law dR/dt = alpha M gbe (1/Rcr - 1/R) conserves volume exactly when sum n R^2 dR/dt = 0, i.e. Rcr = M2/M1
    n0 = np.asarray(m.pbm.PSD, dtype=float)
    Rc = np.asarray(m.pbm.PSDsize, dtype=float)
    M1, M2 = float(np.sum(n0 * Rc)), float(np.sum(n0 * Rc ** 2))
    if M1 > 0 and M2 > 0:
        want = m.alpha * m.M * m.gbe * (M1 / M2 - 1.0 / np.asarray(m.pbm.PSDbounds, dtype=float))
        if np.shape(g) != np.shape(want) or not np.allclose(g, want, rtol=1e-10, atol=1e-12 * float(np.max(np.abs(want)))):
            i = int(np.argmax(np.abs(np.asarray(g) - want))) if np.shape(g) == np.shape(want) else -1
            out.fail("growth_law_not_volume_conserving", "boundary velocity %r at R=%r; the documented law with the volume-conserving critical radius M2/M1 = %r gives %r" % (float(np.asarray(g)[i]), float(m.pbm.PSDbounds[i]), M2 / M1, float(want[i])))
    cg = m.constrainedGrowth(g.copy(), z)
    if np.any(np.abs(cg) > np.abs(g) * (1 + 1e-12)) or np.any(cg * g < 0):
        out.fail("drag_reverses_or_accelerates", "Zener drag z=%r changed the sign or increased the magnitude of a boundary velocity" % z)
    amg = m.alpha * m.M * m.gbe
    if z * amg >= np.max(np.abs(g)) and np.any(cg != 0):
        out.fail("not_frozen", "drag exceeds every driving pressure but %d classes still move" % int(np.sum(cg != 0)))
    frozen = bool(np.all(cg == 0))
    gmax = float(np.max(np.abs(cg))) if not frozen else float(np.max(np.abs(g)))
    dt0 = 0.4 * (m.pbm.PSDbounds[1] - m.pbm.PSDbounds[0]) / gmax
    hist = []

    class Obs:
        def updateCoupledModel(self, gm):
            hist.append((gm.time[-1], gm.avgR[-1], gm.pbm.ThirdMoment(), gm.pbm.bins, gm.pbm.PSD.copy(), gm.pbm.PSDbounds.copy()))
    m.addCouplingModel(Obs())
    # what the documented renormalisation of each step starts from (number of grains, total volume), read at the public Normalize()
    raw = []
    _normalize = m.Normalize

    def _normalize_tap():
        raw.append((float(m.pbm.ZeroMoment()), float(m.pbm.ThirdMoment())))
        _normalize()
    m.Normalize = _normalize_tap
    psd0, b0 = m.pbm.PSD.copy(), m.pbm.PSDbounds.copy()
    N_prev = float(m.pbm.ZeroMoment())
    v0 = float(m.pbm.ThirdMoment())          # total grain volume the run starts from
    so = sys.stdout
    sys.stdout = io.StringIO()
    try:
        for frac in case["calls"]:
            m.solve(dt0 * case["nsteps"] * frac, solverType=it)
    finally:
        sys.stdout = so
    prevR, prevbins = m.avgR[0], len(psd0)
    if len(raw) != len(hist):
        raise RuntimeError("harness: %d renormalisations observed for %d recorded steps" % (len(raw), len(hist)))
    remesh = 0
    for k, (t, R, v3, bins, psd, bnds) in enumerate(hist):
        if not math.isclose(v3, 1.0, rel_tol=1e-9) or not math.isclose(v3, v0, rel_tol=1e-9):
            out.fail("grain_volume_not_conserved", "step %d: third moment of the grain size distribution is %r; the run started from %r (distributions are normalised to 1)" % (k, v3, v0))
            break
        if not np.all(np.isfinite(psd)) or np.any(psd < 0):
            out.fail("grain_psd_invalid", "step %d: grain size distribution negative or not finite" % k)
            break
        changed = bins != prevbins or (k > 0 and (len(bnds) != len(hist[k - 1][5]) or bnds[-1] != hist[k - 1][5][-1])) or (k == 0 and (len(bnds) != len(b0) or bnds[-1] != b0[-1]))
        if changed:
            remesh += 1       # interpolation onto a new grid does not preserve the number of grains (documented): counted, not judged
        # The recorded mean size is cbrt(volume / number) with the volume renormalised to 1 every step ("numerical errors will lead
        # to small changes in volume"): the transport step itself may only remove grains, and the mean may fall by no more than the
        # renormalisation of that step explains (measured: volume error 3.4e-4 in the first step of an under-resolved peak).
        Nraw, Vraw = raw[k] if k < len(raw) else (None, None)
        if z == 0 and not changed and Nraw is not None:
            if Nraw > N_prev * (1 + 1e-9):
                out.fail("mean_grain_size_decreases", "step %d without pinning: the number of grains rose from %r to %r before renormalisation (volume %r)" % (k, N_prev, Nraw, Vraw), sub="number")
                break
            floor = prevR * np.cbrt(min(1.0, Vraw)) * (1 - 1e-9)
            if R < floor:
                out.fail("mean_grain_size_decreases", "step %d without pinning: mean grain size %r -> %r (volume before renormalisation %r explains a fall to %r only)" % (k, prevR, R, Vraw, floor), sub="mean")
                break
            if Vraw < 1 - 1e-4:
                out.label("volume_renormalised_by_more_than_1e-4")
        N_prev = float(np.sum(psd))
        prevR, prevbins = R, bins
    if frozen and hist and remesh == 0:
        ref0 = np.where(psd0 < 1, 0.0, psd0)       # classes below one grain are removed by the documented update
        same = len(hist[-1][4]) == len(psd0) and np.allclose(hist[-1][4], ref0, rtol=1e-9, atol=0)
        if not same:
            out.fail("not_frozen", "drag exceeds every driving pressure but the distribution changed during the run")
    out.label("z_zero" if z == 0 else "frozen" if frozen else "z_partial", case["iterator"])
    if remesh:
        out.label("grid_changed")
    out.nt(len(hist) >= 5)
    return out


def check_coupled(sc):
    from kawin.precipitation.coupling.Strength import StrengthModel
    from kawin.precipitation.coupling.GrainGrowth import GrainGrowthModel
    from kawin.solver import SolverType
    out = Out()
    sm = StrengthModel()
    sm.setDislocationParameters(25e9, 2.86e-10, 0.33)
    sm.setCoherencyParameters(0.01)
    sm.setSolidSolutionStrength({"B": 1e8}, 1)
    gg = GrainGrowthModel(1e-6, 1e-4, 60, 40, 100, solverType=SolverType.EXPLICITEULER if sc["iterator"] == "euler" else SolverType.RK4)
    gg.setGrainBoundaryMobility(sc["gg_M"])
    gg.LoadDistributionFunction(lambda R: np.exp(-(np.log(R / 2e-5) / 0.3) ** 2))
    for ph, (mz, Kz) in (sc.get("zener") or {}).items():
        gg.setZenerParameters(mz, Kz, phase=ph)
    bad = {}

    def watch(model, snap):
        n = model.pData.n
        th = model.pData.time[n]
        tg = gg.time[-1]
        if abs(tg - th) > 1e-9 * abs(th) and "clock" not in bad:
            bad["clock"] = True
            out.fail("grain_clock_mismatch", "host step %d: host time %r, grain-growth time %r" % (n, th, tg))
        rows = len(model.pData.time)
        if not (len(sm.rss) == len(sm.ls) == len(sm.solidStrength) == rows) and "rows" not in bad:
            bad["rows"] = True
            out.fail("strength_history_misaligned", "host has %d recorded steps, strength history has rss=%d ls=%d solid=%d" % (rows, len(sm.rss), len(sm.ls), len(sm.solidStrength)))
    so = sys.stdout
    sys.stdout = io.StringIO()
    try:
        res = H.run(sc, callbacks=[watch], extra_couplings=[sm, gg])
    finally:
        sys.stdout = so
    model = res["model"]
    if sc.get("rerun") and not res["truncated"]:
        # the same host and the same grain-growth model run again after reset() of both (a fresh strength model: it has no reset):
        # the grain-growth clock starts from zero with the host and equals the host clock after every host step of the second run too
        model.clearCouplingModels()
        model.reset()
        gg.reset()
        sm = StrengthModel()
        sm.setDislocationParameters(25e9, 2.86e-10, 0.33)
        sm.setCoherencyParameters(0.01)
        sm.setSolidSolutionStrength({"B": 1e8}, 1)
        bad.clear()
        so = sys.stdout
        sys.stdout = io.StringIO()
        try:
            res = H.run(sc, callbacks=[watch], model=model, therm=res["therm"], extra_couplings=[sm, gg])
        finally:
            sys.stdout = so
        out.label("both_models_reset_and_run_again")
    if sm.rss is not None:
        ps = np.asarray(sm.precStrength(model), dtype=float)
        if not np.all(np.isfinite(ps)) or np.any(ps < 0):
            i = int(np.argmax(~np.isfinite(ps) | (ps < 0)))
            out.fail("precipitate_strength_invalid", "coupled run: precipitate strength %r at step %d (rss=%r)" % (ps[i], i, sm.rss[i].tolist()), subcore=True)
    out.label(sc["iterator"], "calls_%d" % len(sc["durations"]))
    out.nt(res["tap"].steps >= 30)
    return out


@st.composite
def _par(draw):
    b = draw(st.floats(2e-10, 3.5e-10))
    p = {"G": 10 ** draw(st.floats(10, 11.2)), "b": b, "nu": draw(st.floats(0.2, 0.45)), "ri": b * draw(st.sampled_from([1.0, 1.0, 2.0, 0.5, 5.0])),
         "theta": draw(st.one_of(st.floats(0, 90), st.sampled_from([0.0, 90.0, 45.0]))), "psi": draw(st.floats(60, 150)), "M": draw(st.floats(1, 3.1)),
         "Tmodel": draw(st.sampled_from(["complex", "simple"])), "Jmodel": draw(st.sampled_from(["simple", "complex"])),
         "e1": draw(st.floats(1, 2)), "e2": draw(st.floats(1, 2)), "e3": draw(st.floats(1, 2)), "e4": draw(st.floats(1, 2)), "phase_of": {}}
    keys = draw(st.lists(st.sampled_from(["eps", "Gp", "yAPB", "ySFM", "gamma"]), min_size=0, max_size=5, unique=True))
    for k in keys:
        if k == "eps":
            p["eps"] = draw(st.floats(1e-4, 0.05))
        elif k == "Gp":
            p["Gp"] = p["G"] * draw(st.floats(0.3, 3))
        elif k == "yAPB":
            p["yAPB"] = draw(st.floats(0.01, 0.5))
        elif k == "ySFM":
            p["ySFM"] = draw(st.floats(0.02, 0.3))
            p["ySFP"] = p["ySFM"] * draw(st.one_of(st.floats(0.05, 0.95), st.floats(1.0, 2.5)))      # also a stacking-fault energy of the precipitate at or above that of the matrix
        else:
            p["gamma"] = draw(st.floats(0.01, 1.0))
        if draw(st.integers(0, 2)) == 2:
            p["phase_of"][k] = draw(st.sampled_from(["P0", "P1"]))
    return p


@st.composite
def _strength_case(draw):
    p = draw(_par())
    n = draw(st.integers(1, 6))
    rr = st.one_of(st.just(0.0), st.floats(0.05, 0.6).map(lambda f: f * p["ri"]), st.floats(-10, -6.5).map(lambda e: 10 ** e))
    r = [draw(rr) for _ in range(n)]
    Ls = [0.0 if (x == 0 or draw(st.integers(0, 11)) == 11) else 10 ** draw(st.floats(-9, -5.5)) for x in r]      # zero spacing also next to a non-zero radius ("all non-negative radii and spacings")
    return {"par": p, "r": r, "Ls": Ls, "ss": [10 ** draw(st.floats(5, 9)) * draw(st.sampled_from([0.0, 1.0, 1.0])) for _ in range(n)], "sigma0": draw(st.sampled_from([0.0, 1e7, 1e8])),
            "M2": draw(st.one_of(st.just(0.0), st.floats(1, 3.1)))}


@st.composite
def _grain_case(draw):
    nm = draw(st.integers(1, 2))
    return {"cmin": 10 ** draw(st.floats(-7, -5.5)), "span": draw(st.sampled_from([10.0, 30.0, 100.0])), "bins": draw(st.integers(20, 100)),
            "gbe": draw(st.floats(0.1, 1.0)), "M": 10 ** draw(st.floats(-16, -11)),
            "modes": [[draw(st.floats(0.2, 1.0)), draw(st.floats(0.05, 0.5)), draw(st.floats(0.1, 0.5))] for _ in range(nm)],
            "z": draw(st.sampled_from([0.0, 0.0, 1.0])) * 10 ** draw(st.floats(2, 9)), "nsteps": draw(st.integers(5, 120)),
            "calls": draw(st.sampled_from([[1.0], [0.5, 0.5], [0.2, 0.3, 0.5]])), "iterator": draw(st.sampled_from(["euler", "rk4"])),
            "data": draw(st.one_of(st.none(), st.none(), st.lists(st.floats(0.02, 0.6), min_size=40, max_size=80))),
            "pre_reset": draw(st.sampled_from([0, 0, 3, 20])), "alpha": draw(st.sampled_from([1.0, 1.0, 0.5, 2.0, 3.0]))}


@st.composite
def _coupled_case(draw):
    sc = draw(scen.toy_binary_scenario(cap=120, max_phases=2, undersat=False))
    sc["gg_M"] = 10 ** draw(st.floats(-15, -11))
    if draw(st.booleans()):
        # Zener drag parameters, for all phases or for one of them (strong enough drag pins every boundary in some host steps)
        target = draw(st.sampled_from(["all"] + [p["name"] for p in sc["phases"]]))
        sc["zener"] = {target: [draw(st.sampled_from([1.0, 0.5, 2 / 3])), 10 ** draw(st.floats(-4, 1))]}
    sc["rerun"] = draw(st.integers(0, 2)) == 0
    return sc


def pred_subcore(case, v):
    return bool(v.get("data", {}).get("subcore"))


PREDICATES = {"orowan_negative_below_core_radius": pred_subcore}


def clauses():
    return [
        Clause("strength", _strength_case, check_strength, quick=5000, thorough=300000,
               rule="generator: dislocation parameters (G, b, nu, r_i in {0.5,1,2,5} b, theta 0-90, psi), Taylor factor, superposition exponents in [1,2], any subset of the five cutting contributions (global or phase specific), radii arrays mixing 0, sub-core radii (2r < r_i) and 1e-10..3e-7 m with spacings; "
                    "oracle: every branch finite and >= 0, combined = M*min(weak, strong, Orowan) recomputed, zero without precipitates, total >= parts and monotone; a single-phase history evaluated again after setTaylorFactor (no host step in between) scales with the factor and equals M*min(branches) with the parameters in force; non-trivial: an array holding both a sub-core and a normal radius"),
        Clause("mixed_limits", _strength_case, check_mixed, quick=2500, thorough=100000,
               rule="same parameter generator; the mixed-dislocation formulas at 90 and 0 degrees against the edge and screw formulas (rtol 5e-3, simple J)"),
        Clause("graingrowth", _grain_case, check_grain, quick=250, thorough=8000, shrink=False,
               rule="generator: grid, log-normal or bimodal grain size distribution, boundary energy/mobility, correction factor alpha in {0.5, 1, 2, 3}, Zener drag {0, 1e2..1e9}, 5-120 steps split over 1-3 solve calls, both iterators, distribution loaded from a function or from data, optionally after an earlier run and reset(); oracle: third moment after every step equals the one the run started from (1), without drag the number of grains before the per-step renormalisation never rises and the recorded mean size never falls below what that renormalisation explains (prev x cbrt(min(1, raw volume))), boundary velocities equal the documented law at the volume-conserving critical radius M2/M1, drag never reverses/accelerates a boundary and freezes the structure when it exceeds every driving pressure; non-trivial: >= 5 steps"),
        Clause("coupled", _coupled_case, check_coupled, quick=60, thorough=1500, shrink=False,
               rule="generator: toy binary precipitation scenario (1-3 solve calls) with a StrengthModel and a GrainGrowthModel attached from the start, one case in three followed by reset() of host and grain-growth model and a second coupled run of both; after every host step: strength histories have exactly one entry per host row, grain-growth clock equals host clock (1e-9 rel); non-trivial: >= 30 host steps"),
    ]
