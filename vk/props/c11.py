"""C11 — results are equivariant under reordering of elements and of phases."""
import io
import itertools
import sys

import numpy as np
from hypothesis import strategies as st

from ..core import Clause, Out
from .. import harness_kwn as H, scen, realdb

LEVEL = "exploration"
ASSUMPTIONS = [
    "phase permutation is judged on the deterministic toy binary backend: same number of steps, identical time grid (rtol 1e-9) and per-phase histories (rtol 1e-7, only the order of summation differs)",
    "element permutation is judged on the shipped ternary databases with each order evaluated on its own thermodynamics object and caches discarded per query; tolerances: 1e-6 for diffusivities/mobilities/curvature outputs and stoichiometric systems; driving force and nucleus composition on the order/disorder Ni-Cr-Al gamma prime system 5e-2 relative / 0.01 absolute (pycalphad's Newton path depends on the order of the condition dictionary: conditioning, not index mapping)",
]
PH_ATTRS = ["xEqAlpha", "xEqBeta", "drivingForce", "impingement", "Gcrit", "Rcrit", "nucRate", "precipitateDensity", "Rnuc", "Ravg", "ARavg", "volFrac", "fconc"]
GL_ATTRS = ["time", "temperature", "composition"]


def check_phase_order(case):
    out = Out()
    sc = case["sc"]
    perm = case["perm"]
    so = sys.stdout
    sys.stdout = io.StringIO()
    try:
        r1 = H.run(sc)
        sc2 = dict(sc)
        sc2["phases"] = [sc["phases"][i] for i in perm]
        r2 = H.run(sc2)
    finally:
        sys.stdout = so
    p1, p2 = r1["model"].pData, r2["model"].pData
    n1, n2 = len(p1.time), len(p2.time)
    out.label("phases_%d" % len(perm), sc["iterator"])
    if n1 != n2:
        k = min(n1, n2)
        d = np.where(np.asarray(p1.time[:k]) != np.asarray(p2.time[:k]))[0]
        out.fail("phase_order_changes_time_grid", "listing the phases as %r instead of %r changes the run: %d vs %d steps, time grids first differ at step %s" % ([sc["phases"][i]["name"] for i in perm], [p["name"] for p in sc["phases"]], n1, n2, int(d[0]) if len(d) else k))
        return out
    t1, t2 = np.asarray(p1.time), np.asarray(p2.time)
    if not np.allclose(t1, t2, rtol=1e-9, atol=0):
        i = int(np.argmax(np.abs(t1 - t2) > 1e-9 * np.abs(t1)))
        out.fail("phase_order_changes_time_grid", "phase order %r vs %r: time grids differ from step %d (%r vs %r; ratio of step sizes %.3g)" % (perm, list(range(len(perm))), i, t1[i], t2[i], (t2[i] - t2[i - 1]) / (t1[i] - t1[i - 1]) if i > 0 and t1[i] != t1[i - 1] else float("nan")))
        return out
    for a in GL_ATTRS[1:]:
        x, y = np.asarray(getattr(p1, a)), np.asarray(getattr(p2, a))
        if not np.allclose(x, y, rtol=1e-7, atol=1e-300, equal_nan=True):
            out.fail("phase_order_changes_history", "phase order changes %s" % a, attr=a)
            return out
    for a in PH_ATTRS:
        x, y = np.asarray(getattr(p1, a)), np.asarray(getattr(p2, a))
        xp = x[:, perm]
        if not np.allclose(xp, y, rtol=1e-7, atol=1e-300, equal_nan=True):
            idx = np.argwhere(~np.isclose(xp, y, rtol=1e-7, atol=1e-300, equal_nan=True))[0]
            out.fail("phase_order_changes_history", "per-phase history %s is not merely permuted: step %d, %r vs %r" % (a, idx[0], xp[tuple(idx)], y[tuple(idx)]), attr=a)
            return out
    vf = np.asarray(p1.volFrac)
    active = int(np.sum(np.any(vf > 0, axis=0)))
    out.nt(active >= 2)
    if active >= 2:
        out.label("two_phases_hold_particles")
    return out


@st.composite
def _phase_case(draw):
    sc = draw(scen.toy_binary_scenario(cap=200, max_phases=3, undersat=False))
    while len(sc["phases"]) < 2:
        sc = draw(scen.toy_binary_scenario(cap=200, max_phases=3, undersat=False))
    n = len(sc["phases"])
    perms = [list(p) for p in itertools.permutations(range(n))][1:]
    return {"sc": sc, "perm": draw(st.sampled_from(perms))}


def clauses():
    cl = [
        Clause("phase_order", _phase_case, check_phase_order, quick=90, thorough=2000, shrink=False,
               rule="generator: toy binary scenario with 2-3 precipitate phases (different solvus, energies, sites, shapes, volumes) and a non-identity permutation of the phase list (per-phase parameters move with the phase); both orders run under the same cap; "
                    "oracle: same number of steps, same time grid, global histories equal and per-phase histories equal after applying the permutation; non-trivial: at least two phases hold particles"),
    ]
    try:
        from . import c11_elem
        cl += c11_elem.clauses()
    except ImportError:
        pass
    return cl
