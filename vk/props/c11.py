"""C11 — results are equivariant under reordering of elements and of phases."""
import io
import itertools
import sys

import numpy as np
from hypothesis import strategies as st

from ..core import Clause, Out
from .. import harness_kwn as H, scen, realdb

LEVEL = "exploration"
ASSUMPTIONS = [
    "phase permutation is judged on the deterministic toy binary backend: same number of steps, identical time grid (rtol 1e-9) and per-phase histories (rtol 1e-7); where that fails, the deviation is compared step by step with 100 x the deviation produced by perturbing the alloy content by 2 ulp in the original order (floating-point sums over phases are not associative and runs near a nucleation burst amplify rounding)",
    "element permutation is judged on the shipped ternary databases with each order evaluated on its own thermodynamics object and caches discarded per query; tolerances: 1e-6 for diffusivities/mobilities/curvature outputs and stoichiometric systems; driving force and nucleus composition on the order/disorder Ni-Cr-Al gamma prime system 5e-2 relative / 0.01 absolute (pycalphad's Newton path depends on the order of the condition dictionary: conditioning, not index mapping)",
]
PH_ATTRS = ["xEqAlpha", "xEqBeta", "drivingForce", "impingement", "Gcrit", "Rcrit", "nucRate", "precipitateDensity", "Rnuc", "Ravg", "ARavg", "volFrac", "fconc"]
GL_ATTRS = ["time", "temperature", "composition"]


def _reldev(a, b):
    a, b = np.asarray(a, dtype=float), np.asarray(b, dtype=float)
    with np.errstate(all="ignore"):
        d = np.abs(a - b) / np.maximum(np.maximum(np.abs(a), np.abs(b)), 1e-300)
    d = np.where(np.isfinite(d), d, np.where(np.isnan(a) & np.isnan(b), 0.0, np.inf))
    d = np.where((a == b), 0.0, d)
    return d.reshape(len(d), -1).max(axis=1) if d.ndim > 1 else d


def _ulp_shift(x0, n):
    def one(v):
        for _ in range(abs(n)):
            v = float(np.nextafter(v, np.inf if n > 0 else -np.inf))
        return v
    return [one(v) for v in x0] if isinstance(x0, list) else one(x0)


def check_phase_order(case):
    """Permuting the phase list changes only the order in which per-phase terms are summed.  Floating-point sums are not
    associative, and a precipitation run amplifies rounding-level differences (measured: a relative change of 2e-16 of the
    alloy content grows to 1e-8 after 110 steps and to 10 % after 200 in a run near a nucleation burst; discrete events make
    the response jump: 1e-12 at step 168, 0.9 at step 172 in one thorough-tier case).  The permuted run is therefore judged
    step by step against an envelope obtained from three runs of the original order whose alloy content is perturbed by a
    few units in the last place: deviations up to 1e-9 + 100 x those runs' (running maximum) deviation are rounding, anything
    larger is an effect of the order; steps after the envelope passes 1e-6 are not judged."""
    out = Out()
    sc = case["sc"]
    perm = case["perm"]
    so = sys.stdout
    sys.stdout = io.StringIO()
    try:
        r1 = H.run(sc)
        sc2 = dict(sc)
        sc2["phases"] = [sc["phases"][i] for i in perm]
        if sc.get("VmB_calls"):
            # parameters set again between solve calls are keyed by the position of the phase: they move with the phase
            sc2["VmB_calls"] = [{str(j): ch[str(perm[j])] for j in range(len(perm)) if str(perm[j]) in ch} for ch in sc["VmB_calls"]]
        r2 = H.run(sc2)
    finally:
        sys.stdout = so
    p1, p2 = r1["model"].pData, r2["model"].pData
    n1, n2 = len(p1.time), len(p2.time)
    out.label("phases_%d" % len(perm), sc["iterator"], sc["system"])
    if any(p.get("elastic") for p in sc["phases"]):
        out.label("aspect_ratio_from_strain_energy")
    k = min(n1, n2)
    series = [("time", np.asarray(p1.time)[:k], np.asarray(p2.time)[:k], None)]
    for a in GL_ATTRS[1:]:
        series.append((a, np.asarray(getattr(p1, a))[:k], np.asarray(getattr(p2, a))[:k], None))
    for a in PH_ATTRS:
        series.append((a, np.asarray(getattr(p1, a))[:k][:, perm], np.asarray(getattr(p2, a))[:k], perm))
    devs = {name: _reldev(x, y) for name, x, y, _ in series}
    strict_ok = n1 == n2 and devs["time"].max() <= 1e-9 and all(devs[n].max() <= 1e-7 for n in devs if n != "time")
    if not strict_ok:
        # calibrate: how far do rounding-level perturbations carry this run?  Three perturbed runs (alloy content moved by
        # +2, -1 and +4 units in the last place): discrete events (a class boundary crossed, a step limit switching) make the
        # response to a perturbation jump, so one perturbed run under-estimates what another rounding pattern can do.
        noise = np.zeros(k)
        kmin = k
        for ulps in (2, -1, 4):
            sc3 = dict(sc)
            sc3["x0"] = _ulp_shift(sc["x0"], ulps)
            sys.stdout = io.StringIO()
            try:
                r3 = H.run(sc3)
            finally:
                sys.stdout = so
            p3 = r3["model"].pData
            k3 = min(k, len(p3.time))
            kmin = min(kmin, k3)
            for a in ["time"] + GL_ATTRS[1:] + PH_ATTRS:
                dn = _reldev(np.asarray(getattr(p1, a))[:k3], np.asarray(getattr(p3, a))[:k3])
                noise[:k3] = np.maximum(noise[:k3], dn)
        noise[kmin:] = np.inf
        envelope = np.maximum.accumulate(noise)
        allowed_t = 1e-9 + 100 * envelope
        allowed_h = 1e-7 + 100 * envelope
        # once rounding has been amplified by ten orders of magnitude (envelope > 1e-6) the run is past the point where
        # two evaluations of the same mathematics can be told apart: later steps are not judged
        sens = np.where(envelope > 1e-6)[0]
        if len(sens):
            allowed_t[sens[0]:] = np.inf
            allowed_h[sens[0]:] = np.inf
            out.label("sensitive_tail_not_judged")
        worst = None
        for name in devs:
            allowed = allowed_t if name == "time" else allowed_h
            bad = np.where(devs[name] > allowed)[0]
            if len(bad) and (worst is None or bad[0] < worst[1]):
                worst = (name, int(bad[0]))
        judged_all = bool(np.all(envelope[:k] <= 1e-6))
        if worst is None and (n1 == n2 or not judged_all):
            out.label("within_rounding_sensitivity")
        elif worst is None:
            out.fail("phase_order_changes_time_grid", "listing the phases as %r instead of %r changes the number of steps (%d vs %d) although a rounding-level perturbation of the alloy content changes no history by more than %.1e"
                     % ([sc["phases"][i]["name"] for i in perm], [p["name"] for p in sc["phases"]], n1, n2, float(envelope[:k].max())))
            return out
        else:
            name, i = worst
            kind = "phase_order_changes_time_grid" if name == "time" else "phase_order_changes_history"
            out.fail(kind, "phase order %r vs %r: %s differs from step %d by %.3e (relative); a perturbation of the alloy content by 2 ulp changes the histories by at most %.3e up to that step (steps: %d vs %d)"
                     % (perm, list(range(len(perm))), name, i, float(devs[name][i]), float(envelope[i]), n1, n2), attr=name)
            return out
    vf = np.asarray(p1.volFrac)
    active = int(np.sum(np.any(vf > 0, axis=0)))
    out.nt(active >= 2)
    if active >= 2:
        out.label("two_phases_hold_particles")
    return out


@st.composite
def _phase_case(draw):
    if draw(st.integers(0, 3)) == 3:
        # ternary matrix: the multicomponent growth path keeps per-phase search directions and tie-line tables by index
        sc = draw(scen.toy_multi_scenario(cap=150, max_phases=2, min_phases=2))
        return {"sc": sc, "perm": [1, 0]}
    sc = draw(scen.toy_binary_scenario(cap=200, max_phases=3, undersat=False, allow_elastic=True))
    while len(sc["phases"]) < 2:
        sc = draw(scen.toy_binary_scenario(cap=200, max_phases=3, undersat=False, allow_elastic=True))
    n = len(sc["phases"])
    perms = [list(p) for p in itertools.permutations(range(n))][1:]
    return {"sc": sc, "perm": draw(st.sampled_from(perms))}


def clauses():
    cl = [
        Clause("phase_order", _phase_case, check_phase_order, quick=90, thorough=2000, shrink=False,
               rule="generator: toy binary scenario (3 in 4) or toy ternary scenario with two phases (1 in 4; multicomponent growth path) with 2-3 precipitate phases (different solvus, energies, sites, shapes, volumes; needle/plate phases may take their aspect ratio from an elastic strain energy, calculateAspectRatio=True) and a non-identity permutation of the phase list (per-phase parameters move with the phase); both orders run under the same cap; "
                    "oracle: same number of steps, same time grid, global histories equal and per-phase histories equal after applying the permutation; non-trivial: at least two phases hold particles"),
    ]
    try:
        from . import c11_elem
        cl += c11_elem.clauses()
    except ImportError:
        pass
    return cl
