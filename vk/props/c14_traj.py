"""C14 trajectory clause: on every recorded step with non-positive driving force the recorded nucleation rate is 0."""
import numpy as np
from hypothesis import strategies as st

from ..core import Clause, Out
from .. import harness_kwn as H, scen


def check_traj(sc):
    out = Out()
    res = H.run(sc)
    pd = res["model"].pData
    dG = np.asarray(pd.drivingForce, dtype=float)
    J = np.asarray(pd.nucRate, dtype=float)
    bad = np.argwhere((dG <= 0) & (J != 0))
    if len(bad):
        i, p = bad[0]
        out.fail("rate_without_driving_force", "step %d phase %d: driving force %r <= 0 but recorded nucleation rate %r (%d such steps)" % (i, p, dG[i, p], J[i, p], len(bad)), steps=int(len(bad)))
    neg_after_pos = False
    for p in range(dG.shape[1]):
        pos = np.where(J[:, p] > 0)[0]
        if len(pos) and np.any(dG[pos[0]:, p] <= 0):
            neg_after_pos = True
    out.label("T_" + sc["T"][0], sc["iterator"], sc["system"])
    if neg_after_pos:
        out.label("driving_force_turns_negative_after_nucleation")
    out.nt(neg_after_pos)
    return out


@st.composite
def _heating(draw):
    multi = draw(st.integers(0, 3)) == 3
    sc = draw(scen.toy_multi_scenario(cap=250, allow_profile=False)) if multi else draw(scen.toy_binary_scenario(cap=300, max_phases=2, allow_profile=False, undersat=False, total_log10=(1.5, 3.3), dtScales=[0.05, 0.2]))
    T0 = sc["T"][1]
    total = sum(sc["durations"])
    # hold, then jump/ramp to well above the solvus, optionally come back
    t1 = total / 3600 * draw(st.floats(0.02, 0.3))
    t2 = t1 + total / 3600 * draw(st.floats(1e-4, 0.3))
    Thot = T0 + draw(st.floats(40.0, 400.0))
    hrs, Ts = [0.0, t1, t2], [T0, T0, Thot]
    if draw(st.booleans()):
        t3 = t2 + total / 3600 * draw(st.floats(0.01, 0.3))
        hrs += [t3, t3 + total / 3600 * draw(st.floats(1e-4, 0.2))]
        Ts += [Thot, T0 - draw(st.floats(0.0, 30.0))]
    sc["T"] = [draw(st.sampled_from(["array", "func"])), hrs, Ts]
    return sc


def clauses():
    return [
        Clause("trajectory", _heating, check_traj, quick=200, thorough=3000, shrink=False,
               rule="generator: toy binary/ternary scenario with a hold, a jump or ramp 40-400 K above the start temperature (through the solvus) and optionally a return; every recorded step with non-positive driving force must record nucleation rate 0; "
                    "non-trivial: the driving force turns non-positive after a step with positive nucleation rate"),
    ]
