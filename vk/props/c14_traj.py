"""C14 trajectory clause: on every recorded step with non-positive driving force the recorded nucleation rate is 0."""
import numpy as np
from hypothesis import strategies as st

from ..core import Clause, Out
from .. import harness_kwn as H, scen


def check_traj(sc):
    out = Out()
    res = H.run(sc)
    pd = res["model"].pData
    dG = np.asarray(pd.drivingForce, dtype=float)
    J = np.asarray(pd.nucRate, dtype=float)
    bad = np.argwhere((dG <= 0) & (J != 0))
    if len(bad):
        i, p = bad[0]
        out.fail("rate_without_driving_force", "step %d phase %d: driving force %r <= 0 but recorded nucleation rate %r (%d such steps)" % (i, p, dG[i, p], J[i, p], len(bad)), steps=int(len(bad)))
    neg_after_pos = False
    for p in range(dG.shape[1]):
        pos = np.where(J[:, p] > 0)[0]
        if len(pos) and np.any(dG[pos[0]:, p] <= 0):
            neg_after_pos = True
    out.label("T_" + sc["T"][0], sc["iterator"], sc["system"])
    if neg_after_pos:
        out.label("driving_force_turns_negative_after_nucleation")
    out.nt(neg_after_pos)
    return out


def check_model_factors(sc):
    """Cached factors as the *model* uses them: the grain-boundary energy is a matrix property handed to every precipitate's
    barrier at setup(); after each (re)configuration the factors must be those of a fresh object with the current energies."""
    from kawin.precipitation.parameters.Nucleation import NucleationBarrierParameters
    import math
    out = Out()
    m, th = H.build_model(sc)
    for k, e in enumerate(sc["gbe_seq"]):
        if k > 0:
            m.reset()
        m.setGrainBoundaryEnergy(e)
        try:
            m.setup()
        except ValueError as err:
            # the configuration is admissible if fresh barrier objects accept it for every phase; a refusal then comes from a stale energy
            for ph in sc["phases"]:
                NucleationBarrierParameters(site=ph["site"], gamma=ph["gamma"], gbEnergy=e).areaFactor
            out.fail("stale_factor", "setup() after setGrainBoundaryEnergy(%r) raised %s although fresh barrier objects accept site/gamma/gbEnergy of every phase" % (e, str(err)[:200]), factor="GBk", through="model")
            return out
        for p, ph in enumerate(sc["phases"]):
            nuc = m.precipitateParameters[p].nucleation
            fresh = NucleationBarrierParameters(site=ph["site"], gamma=ph["gamma"], gbEnergy=e)
            for name in ("GBk", "areaFactor", "volumeFactor", "gbRemoval", "areaRemoval"):
                a, b = getattr(nuc, name), getattr(fresh, name)
                if a is None or not math.isclose(float(a), float(b), rel_tol=1e-12, abs_tol=1e-300):
                    out.fail("stale_factor", "after setGrainBoundaryEnergy(%r) (%s) and setup(), phase %d on %s: %s = %r, a fresh object with gamma=%r gbEnergy=%r gives %r" % (e, "first configuration" if k == 0 else "configuration %d after reset()" % (k + 1), p, ph["site"], name, a, ph["gamma"], e, b), factor=name, through="model")
                    return out
            if e == 0 and not (math.isclose(float(nuc.areaFactor), 4 * math.pi, rel_tol=1e-12) and math.isclose(float(nuc.volumeFactor), 4 * math.pi / 3, rel_tol=1e-12)):
                out.fail("not_spherical_at_k0", "grain-boundary energy 0 (documented: equivalent to bulk precipitation), phase %d on %s: area factor %r, volume factor %r" % (p, ph["site"], nuc.areaFactor, nuc.volumeFactor), through="model")
                return out
    out.label("gbe_zero" if 0.0 in sc["gbe_seq"] else "gbe_positive", "configurations_%d" % len(sc["gbe_seq"]))
    out.nt(len(sc["gbe_seq"]) > 1 and any(ph["site"] in scen.KMAX for ph in sc["phases"]))
    return out


@st.composite
def _model_factors_case(draw):
    sc = draw(scen.toy_binary_scenario(cap=50, max_phases=2, allow_profile=False, undersat=False, sites=["grain boundaries", "grain edges", "grain corners", "grain boundaries", "bulk", "dislocations"]))
    gbs = [p for p in sc["phases"] if p["site"] in scen.KMAX]
    lim = min([2 * scen.KMAX[p["site"]] * p["gamma"] for p in gbs] or [0.6])
    sc["gbe_seq"] = [draw(st.sampled_from([0.0, 1.0, 1.0])) * draw(st.floats(0.0, 0.95)) * lim for _ in range(draw(st.integers(1, 3)))]
    return sc


@st.composite
def _heating(draw):
    multi = draw(st.integers(0, 3)) == 3
    sc = draw(scen.toy_multi_scenario(cap=250, allow_profile=False)) if multi else draw(scen.toy_binary_scenario(cap=300, max_phases=2, allow_profile=False, undersat=False, total_log10=(1.5, 3.3), dtScales=[0.05, 0.2]))
    T0 = sc["T"][1]
    total = sum(sc["durations"])
    # hold, then jump/ramp to well above the solvus, optionally come back
    t1 = total / 3600 * draw(st.floats(0.02, 0.3))
    t2 = t1 + total / 3600 * draw(st.floats(1e-4, 0.3))
    Thot = T0 + draw(st.floats(40.0, 400.0))
    hrs, Ts = [0.0, t1, t2], [T0, T0, Thot]
    if draw(st.booleans()):
        t3 = t2 + total / 3600 * draw(st.floats(0.01, 0.3))
        hrs += [t3, t3 + total / 3600 * draw(st.floats(1e-4, 0.2))]
        Ts += [Thot, T0 - draw(st.floats(0.0, 30.0))]
    sc["T"] = [draw(st.sampled_from(["array", "func"])), hrs, Ts]
    return sc


def clauses():
    return [
        Clause("trajectory", _heating, check_traj, quick=200, thorough=3000, shrink=False,
               rule="generator: toy binary/ternary scenario with a hold, a jump or ramp 40-400 K above the start temperature (through the solvus) and optionally a return; every recorded step with non-positive driving force must record nucleation rate 0; "
                    "non-trivial: the driving force turns non-positive after a step with positive nucleation rate"),
        Clause("model_factors", _model_factors_case, check_model_factors, quick=300, thorough=6000,
               rule="generator: toy binary model (1-2 phases, boundary-type sites in two of three phases) configured with 1-3 grain-boundary energies in turn (0 in one of three, else up to 0.95 of the tightest admissible ratio), reset() between, setup() after each; "
                    "oracle: the five factors of every phase as the model holds them equal those of a freshly constructed barrier object with the current site, interfacial and grain-boundary energy, and are the spherical values at energy 0; non-trivial: more than one configuration with a boundary-type site"),
    ]
