"""C14 trajectory clause: on every recorded step with non-positive driving force the recorded nucleation rate is 0."""
import numpy as np
from hypothesis import strategies as st

from ..core import Clause, Out
from .. import harness_kwn as H, scen


def check_traj(sc):
    out = Out()
    res = H.run(sc)
    pd = res["model"].pData
    dG = np.asarray(pd.drivingForce, dtype=float)
    J = np.asarray(pd.nucRate, dtype=float)
    bad = np.argwhere((dG <= 0) & (J != 0))
    if len(bad):
        i, p = bad[0]
        out.fail("rate_without_driving_force", "step %d phase %d: driving force %r <= 0 but recorded nucleation rate %r (%d such steps)" % (i, p, dG[i, p], J[i, p], len(bad)), steps=int(len(bad)))
    neg_after_pos = False
    for p in range(dG.shape[1]):
        pos = np.where(J[:, p] > 0)[0]
        if len(pos) and np.any(dG[pos[0]:, p] <= 0):
            neg_after_pos = True
    out.label("T_" + sc["T"][0], sc["iterator"], sc["system"])
    if neg_after_pos:
        out.label("driving_force_turns_negative_after_nucleation")
    out.nt(neg_after_pos)
    return out


def check_model_factors(sc):
    """Cached factors as the *model* uses them: the grain-boundary energy is a matrix property handed to every precipitate's
    barrier at setup(); after each (re)configuration the factors must be those of a fresh object with the current energies."""
    from kawin.precipitation.parameters.Nucleation import NucleationBarrierParameters
    import math
    out = Out()
    m, th = H.build_model(sc)
    for k, e in enumerate(sc["gbe_seq"]):
        if k > 0:
            m.reset()
        m.setGrainBoundaryEnergy(e)
        try:
            m.setup()
        except ValueError as err:
            # the configuration is admissible if fresh barrier objects accept it for every phase; a refusal then comes from a stale energy
            for ph in sc["phases"]:
                NucleationBarrierParameters(site=ph["site"], gamma=ph["gamma"], gbEnergy=e).areaFactor
            out.fail("stale_factor", "setup() after setGrainBoundaryEnergy(%r) raised %s although fresh barrier objects accept site/gamma/gbEnergy of every phase" % (e, str(err)[:200]), factor="GBk", through="model")
            return out
        for p, ph in enumerate(sc["phases"]):
            nuc = m.precipitateParameters[p].nucleation
            fresh = NucleationBarrierParameters(site=ph["site"], gamma=ph["gamma"], gbEnergy=e)
            for name in ("GBk", "areaFactor", "volumeFactor", "gbRemoval", "areaRemoval"):
                a, b = getattr(nuc, name), getattr(fresh, name)
                if a is None or not math.isclose(float(a), float(b), rel_tol=1e-12, abs_tol=1e-300):
                    out.fail("stale_factor", "after setGrainBoundaryEnergy(%r) (%s) and setup(), phase %d on %s: %s = %r, a fresh object with gamma=%r gbEnergy=%r gives %r" % (e, "first configuration" if k == 0 else "configuration %d after reset()" % (k + 1), p, ph["site"], name, a, ph["gamma"], e, b), factor=name, through="model")
                    return out
            if e == 0 and not (math.isclose(float(nuc.areaFactor), 4 * math.pi, rel_tol=1e-12) and math.isclose(float(nuc.volumeFactor), 4 * math.pi / 3, rel_tol=1e-12)):
                out.fail("not_spherical_at_k0", "grain-boundary energy 0 (documented: equivalent to bulk precipitation), phase %d on %s: area factor %r, volume factor %r" % (p, ph["site"], nuc.areaFactor, nuc.volumeFactor), through="model")
                return out
    out.label("gbe_zero" if 0.0 in sc["gbe_seq"] else "gbe_positive", "configurations_%d" % len(sc["gbe_seq"]))
    out.nt(len(sc["gbe_seq"]) > 1 and any(ph["site"] in scen.KMAX for ph in sc["phases"]))
    return out


def check_steady_state(sc):
    """The documented helper computeSteadyStateNucleation (example 13) on a binary backend: array call over temperatures and the
    same points one by one; the quantities of the statement at every point with positive driving force."""
    import io
    import math
    import sys
    from kawin.precipitation.NucleationRate import computeSteadyStateNucleation
    from kawin.precipitation.PrecipitationParameters import MatrixParameters, PrecipitateParameters
    out = Out()
    th = H.build_therm(sc)
    ph = sc["phases"][0]
    matrix = MatrixParameters(["B"])
    matrix.volume.setVolume(*sc["VmA"])
    matrix.GBenergy = sc["gbe_ss"]
    prec = PrecipitateParameters(ph["name"])
    prec.gamma = ph["gamma"]
    prec.volume.setVolume(*ph["VmB"])
    prec.nucleation.gbEnergy = sc["gbe_ss"]
    prec.nucleation.setNucleationType(ph["site"])
    Ts = np.array(sc["T_ss"], dtype=float)
    x0 = float(sc["x0"])
    so = sys.stdout
    sys.stdout = io.StringIO()
    try:
        arr = computeSteadyStateNucleation(th, x0, Ts, prec, matrix, **({"betaFunc": None} if sc["beta_ss"] == "default" else {"betaFunc": __import__("kawin.precipitation.NucleationRate", fromlist=["betaBinary1"]).betaBinary1}))
        singles = [computeSteadyStateNucleation(th, x0, float(t), prec, matrix, **({} if sc["beta_ss"] == "default" else {"betaFunc": __import__("kawin.precipitation.NucleationRate", fromlist=["betaBinary1"]).betaBinary1})) for t in Ts]
    finally:
        sys.stdout = so
    names = ("nucleation_rate", "chemical_driving_force", "volumetric_driving_force", "Rcrit", "Gcrit", "Z", "beta", "tau", "nucleation_radius")
    A = {k: np.atleast_1d(np.asarray(getattr(arr, k), dtype=float)) for k in names}
    pos = 0
    for i, t in enumerate(Ts):
        dg = float(th.getDrivingForce(x0, float(t), precPhase=ph["name"])[0])
        for k in names:
            a, b = float(A[k][i]), float(np.squeeze(getattr(singles[i], k)))
            if not (a == b or (math.isfinite(a) and math.isfinite(b) and math.isclose(a, b, rel_tol=1e-10, abs_tol=0)) or (math.isnan(a) and math.isnan(b))):
                out.fail("scalar_vs_array", "T=%r: %s = %r inside the array call, %r asked alone" % (float(t), k, a, b), quantity=k)
        if dg <= 0:
            if A["nucleation_rate"][i] != 0:
                out.fail("rate_without_driving_force", "T=%r: driving force %r <= 0 but steady-state nucleation rate %r" % (float(t), dg, float(A["nucleation_rate"][i])))
            continue
        pos += 1
        for k in ("nucleation_rate", "Gcrit", "Z", "beta", "tau", "Rcrit"):
            v = float(A[k][i])
            if not math.isfinite(v) or v < 0:
                out.fail("not_finite_or_negative", "T=%r (driving force %r > 0): %s = %r" % (float(t), dg, k, v), quantity=k)
        if A["Rcrit"][i] < prec.Rmin * (1 - 1e-12):
            out.fail("rcrit_below_minimum", "T=%r: critical radius %r below the minimum radius %r" % (float(t), float(A["Rcrit"][i]), prec.Rmin))
        # sphere, no strain energy: critical radius of a sphere (clamped at the minimum radius), barrier = spherical barrier x volume factor / (4 pi / 3)
        dgv = dg / prec.volume.Vm
        rc = max(2 * ph["gamma"] / dgv, prec.Rmin)
        if not math.isclose(float(A["Rcrit"][i]), rc, rel_tol=1e-9):
            out.fail("rcrit_not_spherical", "T=%r: critical radius %r, 2 gamma / dGv (or the minimum radius) = %r on %s" % (float(t), float(A["Rcrit"][i]), rc, ph["site"]))
        if rc > prec.Rmin:
            gsph = 16 * math.pi * ph["gamma"] ** 3 / (3 * dgv ** 2)
            f = float(prec.nucleation.volumeFactor) / (4 * math.pi / 3)
            if not math.isclose(float(A["Gcrit"][i]), gsph * f, rel_tol=1e-9):
                out.fail("barrier_not_spherical_times_factor", "T=%r on %s: barrier %r, spherical barrier x volume factor/(4pi/3) = %r" % (float(t), ph["site"], float(A["Gcrit"][i]), gsph * f))
    out.label(ph["site"].replace(" ", "_"), "beta_" + sc["beta_ss"])
    out.nt(pos >= 2 and pos < len(Ts))
    return out


@st.composite
def _steady_case(draw):
    sc = draw(scen.toy_binary_scenario(cap=10, max_phases=1, allow_profile=False, allow_shapes=False))
    ph = sc["phases"][0]
    ph.pop("strain", None)
    T0 = sc["T"][1]
    # temperatures from well below to above the solvus of the toy phase (the driving force changes sign inside the list)
    sc["T_ss"] = sorted(set([T0] + [T0 + draw(st.floats(-150.0, 400.0)) for _ in range(draw(st.integers(2, 6)))]))
    sc["T_ss"] = [t for t in sc["T_ss"] if t > 250.0]
    lim = 2 * scen.KMAX[ph["site"]] * ph["gamma"] if ph["site"] in scen.KMAX else 0.6
    sc["gbe_ss"] = draw(st.sampled_from([0.0, 1.0, 1.0])) * draw(st.floats(0.0, 0.95)) * lim
    sc["beta_ss"] = draw(st.sampled_from(["default", "beta1"]))
    return sc


@st.composite
def _model_factors_case(draw):
    sc = draw(scen.toy_binary_scenario(cap=50, max_phases=2, allow_profile=False, undersat=False, sites=["grain boundaries", "grain edges", "grain corners", "grain boundaries", "bulk", "dislocations"]))
    gbs = [p for p in sc["phases"] if p["site"] in scen.KMAX]
    lim = min([2 * scen.KMAX[p["site"]] * p["gamma"] for p in gbs] or [0.6])
    sc["gbe_seq"] = [draw(st.sampled_from([0.0, 1.0, 1.0])) * draw(st.floats(0.0, 0.95)) * lim for _ in range(draw(st.integers(1, 3)))]
    return sc


@st.composite
def _heating(draw):
    multi = draw(st.integers(0, 3)) == 3
    sc = draw(scen.toy_multi_scenario(cap=250, allow_profile=False)) if multi else draw(scen.toy_binary_scenario(cap=300, max_phases=2, allow_profile=False, undersat=False, total_log10=(1.5, 3.3), dtScales=[0.05, 0.2]))
    T0 = sc["T"][1]
    total = sum(sc["durations"])
    # hold, then jump/ramp to well above the solvus, optionally come back
    t1 = total / 3600 * draw(st.floats(0.02, 0.3))
    t2 = t1 + total / 3600 * draw(st.floats(1e-4, 0.3))
    Thot = T0 + draw(st.floats(40.0, 400.0))
    hrs, Ts = [0.0, t1, t2], [T0, T0, Thot]
    if draw(st.booleans()):
        t3 = t2 + total / 3600 * draw(st.floats(0.01, 0.3))
        hrs += [t3, t3 + total / 3600 * draw(st.floats(1e-4, 0.2))]
        Ts += [Thot, T0 - draw(st.floats(0.0, 30.0))]
    sc["T"] = [draw(st.sampled_from(["array", "func"])), hrs, Ts]
    return sc


def clauses():
    return [
        Clause("trajectory", _heating, check_traj, quick=200, thorough=3000, shrink=False,
               rule="generator: toy binary/ternary scenario with a hold, a jump or ramp 40-400 K above the start temperature (through the solvus) and optionally a return; every recorded step with non-positive driving force must record nucleation rate 0; "
                    "non-trivial: the driving force turns non-positive after a step with positive nucleation rate"),
        Clause("steady_state", _steady_case, check_steady_state, quick=400, thorough=10000,
               rule="generator: toy binary phase (all five site types, grain-boundary energy 0 or up to 0.95 of the admissible ratio) x 3-7 temperatures from 150 K below to 400 K above the reference temperature (through the solvus) x impingement function {default, betaBinary1}; computeSteadyStateNucleation (documented helper, example 13) called with the temperature array and point by point; "
                    "oracle: array element = single call for all nine returned quantities; where the driving force is positive rate, barrier, Zeldovich factor, impingement rate, incubation time finite and >= 0, critical radius = max(2 gamma/dGv, minimum radius), barrier = spherical barrier x volume factor/(4 pi/3); rate 0 where the driving force is <= 0; non-trivial: the driving force changes sign inside the list"),
        Clause("model_factors", _model_factors_case, check_model_factors, quick=300, thorough=6000,
               rule="generator: toy binary model (1-2 phases, boundary-type sites in two of three phases) configured with 1-3 grain-boundary energies in turn (0 in one of three, else up to 0.95 of the tightest admissible ratio), reset() between, setup() after each; "
                    "oracle: the five factors of every phase as the model holds them equal those of a freshly constructed barrier object with the current site, interfacial and grain-boundary energy, and are the spherical values at energy 0; non-trivial: more than one configuration with a boundary-type site"),
    ]
