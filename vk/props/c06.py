"""C06 — integrators reach their nominal order, also for time-dependent problems.

Clauses
  order      observed convergence order (sup-norm error over the trajectory at three resolutions)
             against closed-form solutions, autonomous and non-autonomous families
  stages     times at which the derivative callback is invoked during one step, (a) calling
             the iterator function directly, (b) through GenericModel.solve
  immutable  the state vector handed to the iterator is bit-identical afterwards
"""
import math

import numpy as np
from hypothesis import strategies as st

from ..core import Clause, Out

LEVEL = "exploration"
ASSUMPTIONS = [
    "closed-form solutions of the test ODE families are evaluated with numpy in double precision",
    "order is judged only when all three sup-norm errors lie in the asymptotic window [1e-11,5e-2]*scale; a case is a violation only if BOTH successive order estimates fall below nominal-0.35 and a third estimate from a further halving (h/8, if still inside the window) does too",
]

FAMILIES = ["exp", "logistic", "osc", "lin2", "cos", "poly", "forced", "atx", "forcedosc", "sin0", "tx0"]
NONAUTO = {"cos", "poly", "forced", "atx", "forcedosc", "sin0", "tx0"}


def _iter(name):
    from kawin.solver.Solver import SolverType
    return {"euler": SolverType.EXPLICITEULER, "rk4": SolverType.RK4}[name]


def problem(case):
    """Returns (f(t,x)->ndarray, exact(t)->ndarray, x0 ndarray, rate)."""
    fam, p, t0 = case["family"], case["p"], case["t0"]
    x0 = np.array(case["x0"], dtype=float)
    if fam == "exp":
        lam = p[0]
        return (lambda t, x: lam * x), (lambda t: x0 * np.exp(lam * (t - t0))), x0, abs(lam)
    if fam == "logistic":
        r, K = abs(p[0]), 1.0 + abs(p[1])
        y0 = np.abs(x0) * 0.3 + 0.1
        return (lambda t, x: r * x * (1 - x / K)), (lambda t: K / (1 + (K / y0 - 1) * np.exp(-r * (t - t0)))), y0, r
    if fam == "osc":
        w = abs(p[0])
        a, b = x0[0], (x0[1] if len(x0) > 1 else 0.5)
        y0 = np.array([a, b])
        f = lambda t, x: np.array([x[1], -w * w * x[0]])
        ex = lambda t: np.array([a * np.cos(w * (t - t0)) + b / w * np.sin(w * (t - t0)),
                                 -a * w * np.sin(w * (t - t0)) + b * np.cos(w * (t - t0))])
        return f, ex, y0, w
    if fam == "lin2":
        # x' = A x with A = [[-a, b],[-b, -a]]  -> e^{-a s} rotation(b s)
        a, b = abs(p[0]) * 0.5, abs(p[1])
        u, v = x0[0], (x0[1] if len(x0) > 1 else 0.5)
        y0 = np.array([u, v])
        f = lambda t, x: np.array([-a * x[0] + b * x[1], -b * x[0] - a * x[1]])
        def ex(t):
            s = t - t0
            c, sn, e = np.cos(b * s), np.sin(b * s), np.exp(-a * s)
            return e * np.array([c * u + sn * v, -sn * u + c * v])
        return f, ex, y0, max(a, b)
    if fam == "cos":
        a, w, ph = p[0], abs(p[1]), p[2]
        return (lambda t, x: np.full_like(x, a * np.cos(w * t + ph))), \
               (lambda t: x0 + a / w * (np.sin(w * t + ph) - np.sin(w * t0 + ph))), x0, w
    if fam == "poly":
        a, k = p[0], 4 + int(abs(p[1]) * 10) % 3
        sc = abs(p[2]) + 0.5     # time scale
        return (lambda t, x: np.full_like(x, a * (t / sc) ** k)), \
               (lambda t: x0 + a * sc / (k + 1) * ((t / sc) ** (k + 1) - (t0 / sc) ** (k + 1))), x0, (k + 1) / max(t0, sc)
    if fam == "forced":
        # x' = -x + sin t
        C = (x0 - 0.5 * (np.sin(t0) - np.cos(t0))) * np.exp(t0)
        return (lambda t, x: -x + np.sin(t)), (lambda t: C * np.exp(-t) + 0.5 * (np.sin(t) - np.cos(t))), x0, 1.0
    if fam == "atx":
        # x' = a cos(w t) x  -> x0 exp(a/w (sin wt - sin wt0))
        a, w = p[0] * 0.5, abs(p[1])
        return (lambda t, x: a * np.cos(w * t) * x), \
               (lambda t: x0 * np.exp(a / w * (np.sin(w * t) - np.sin(w * t0)))), x0, max(w, abs(a))
    if fam == "forcedosc":
        # x'' + x = F cos(w t), w != 1: particular F/(1-w^2) cos wt
        F, w = p[0], 1.5 + abs(p[1])
        A = F / (1 - w * w)
        a0, b0 = x0[0], (x0[1] if len(x0) > 1 else 0.5)
        # x = c1 cos t + c2 sin t + A cos wt ; v = -c1 sin t + c2 cos t - A w sin wt
        r1 = a0 - A * np.cos(w * t0)
        r2 = b0 + A * w * np.sin(w * t0)
        c1 = r1 * np.cos(t0) - r2 * np.sin(t0)
        c2 = r1 * np.sin(t0) + r2 * np.cos(t0)
        y0 = np.array([a0, b0])
        f = lambda t, x: np.array([x[1], -x[0] + F * np.cos(w * t)])
        ex = lambda t: np.array([c1 * np.cos(t) + c2 * np.sin(t) + A * np.cos(w * t),
                                 -c1 * np.sin(t) + c2 * np.cos(t) - A * w * np.sin(w * t)])
        return f, ex, y0, w
    if fam == "sin0":
        # starts at rest: x' = a sin(w (t - t0)) vanishes exactly at the first stage of the first step
        a, w = p[0], abs(p[1])
        return (lambda t, x: np.full_like(x, a * np.sin(w * (t - t0)))), (lambda t: x0 + a / w * (1 - np.cos(w * (t - t0)))), x0, w
    if fam == "tx0":
        # starts at rest and depends on the state: x' = -2 a (t - t0) x  ->  x0 exp(-a (t - t0)^2)
        a = abs(p[0])
        return (lambda t, x: -2 * a * (t - t0) * x), (lambda t: x0 * np.exp(-a * (t - t0) ** 2)), x0, 2 * math.sqrt(a)
    raise ValueError(fam)


def make_model(f, x0, t0, h, int_state=False):
    from kawin.GenericModel import GenericModel

    class M(GenericModel):
        def __init__(self):
            self.t = [t0]
            # an initial state given as integers (a legal initial value) must not change the arithmetic of the stages
            self.xs = [np.array(x0, dtype=np.int64 if int_state else float)]
            self.calls = []

        def getCurrentX(self):
            return self.t[-1], [self.xs[-1]]

        def getdXdt(self, t, x):
            self.calls.append(float(t))
            return [f(t, np.asarray(x[0], dtype=float))]

        def getDt(self, dXdt):
            return h

        def postProcess(self, time, x):
            self.t.append(float(time))
            self.xs.append(np.array(x[0], dtype=float))
            self.calls.append(None)   # step separator
            return x, False

    return M()


def _solve(m, total, it, minfrac, entry, h):
    """solve() on the model itself, or on a Coupler wrapping it (alone, or next to a second model that proposes the same step):
    the coupler is the documented way to advance several models together, and a model inside it sees the same stage times."""
    if entry in ("coupler", "coupler2"):
        from kawin.GenericModel import Coupler
        models = [m]
        if entry == "coupler2":
            models.append(make_model(lambda t, x: -0.3 * x, np.array([1.0, 2.0]), 0.0, h))
        Coupler(models).solve(total, solverType=_iter(it), minDtFrac=minfrac, maxDtFrac=1)
    else:
        m.solve(total, solverType=_iter(it), minDtFrac=minfrac, maxDtFrac=1)


def sup_error(case, refine):
    if case.get("entry", "direct") != "direct":
        case = dict(case, t0=0.0)          # a coupler keeps its own clock, which starts at 0
    f, ex, y0, rate = problem(case)
    h = case["h"] / refine
    n = case["nsteps"] * refine
    m = make_model(f, y0, case["t0"], h, int_state=bool(case.get("int_state")) and bool(np.all(np.asarray(y0) == np.round(y0))))
    # the duration need not be a multiple of the step: a tail (fraction of the coarsest step) leaves a shorter last step,
    # and the minimum step fraction is an input of solve() like any other
    total = (case["nsteps"] + case.get("tail", 0.0)) * case["h"]
    _solve(m, total, case["iterator"], case.get("minfrac", 1e-12), case.get("entry", "direct"), h)
    if abs(m.t[-1] - (case["t0"] + total)) > 4 * np.spacing(abs(case["t0"]) + total):
        return float("nan"), 1.0, len(m.t) - 1
    ts = np.array(m.t)
    err = 0.0
    scale = 0.0
    for t, x in zip(ts, m.xs):
        e = ex(t)
        err = max(err, float(np.max(np.abs(x - e))))
        scale = max(scale, float(np.max(np.abs(e))))
    return err, scale, len(ts) - 1


def check_order(case):
    out = Out()
    nominal = 1 if case["iterator"] == "euler" else 4
    e1, sc, n1 = sup_error(case, 1)
    e2, _, n2 = sup_error(case, 2)
    e3, _, n3 = sup_error(case, 4)
    sc = max(sc, 1e-3)
    lo, hi = 1e-11 * sc, 5e-2 * sc
    out.label("fam_" + case["family"], case["iterator"], "entry_" + case.get("entry", "direct"), *(["integer_typed_state"] if case.get("int_state") else []))
    if case.get("tail"):
        out.label("short_last_step", "tail_below_min_step" if case["tail"] * case["h"] < case.get("minfrac", 0) * (case["nsteps"] + case["tail"]) * case["h"] else "tail_above_min_step")
    if not (all(np.isfinite([e1, e2, e3])) and lo <= e3 and e1 <= hi and e2 >= lo):
        out.label("out_of_regime")
        return out
    p1 = math.log2(e1 / e2)
    p2 = math.log2(e2 / e3)
    out.info = {"p1": p1, "p2": p2}
    out.label("judged")
    out.nt(case["family"] in NONAUTO)
    if max(p1, p2) < nominal - 0.35:
        # both estimates low: either the scheme is below its order or the coarse steps are still pre-asymptotic
        # (some families approach the order from below: 3.4, 3.6, 3.85); one more halving decides
        e4, _, n4 = sup_error(case, 8)
        p3 = math.log2(e3 / e4) if (np.isfinite(e4) and e4 >= lo) else None
        if p3 is None or p3 >= nominal - 0.35:
            out.label("preasymptotic_resolved_by_h8" if p3 is not None else "h8_below_window")
            return out
        out.info["p3"] = p3
        out.fail("order_below_nominal", "%s on %s: observed orders %.2f, %.2f < nominal %d (errors %.3e %.3e %.3e)"
                 % (case["iterator"], case["family"], p1, p2, nominal, e1, e2, e3) + "; at h/8: order %.2f (error %.3e)" % (p3, e4), p1=p1, p2=p2)
    return out


def check_stages(case):
    """Stage times and state immutability, direct iterator call and through solve()."""
    from kawin.solver.Iterators import ExplicitEulerIterator, RK4Iterator
    out = Out()
    it = case["iterator"]
    fn = {"euler": ExplicitEulerIterator, "rk4": RK4Iterator}[it]
    t, dt = case["t0"], case["h"]
    X = np.array(case["x0"], dtype=float)
    Xcopy = X.copy()
    calls = []

    def f(tt, x, getDt=False):
        calls.append(float(tt))
        d = -0.5 * np.asarray(x) + math.cos(tt)
        return (d, dt) if getDt else d

    def upd(x, dxdt, h):
        return x + dxdt * h

    Xn, dtr = fn(f, t, X, upd)
    expect = [t] if it == "euler" else [t, t + dt / 2, t + dt / 2, t + dt]
    out.label(it)
    out.nt(it == "rk4" and dt > 1e-9 * max(1.0, abs(t)))
    tol = 4 * np.spacing(max(abs(t), abs(t + dt), 1e-300))
    if len(calls) != len(expect) or any(abs(a - b) > tol for a, b in zip(calls, expect)):
        out.fail("stage_times_direct", "%s called f at %r, documented %r" % (it, calls, expect), calls=calls, expect=expect)
    if not (X.tobytes() == Xcopy.tobytes()):
        out.fail("state_modified_direct", "iterator modified the state vector it was given")
    if dtr != dt:
        out.fail("dt_returned", "iterator returned dt %r, f proposed %r" % (dtr, dt))
    # right-hand sides that hand back the state they were given (x' = x written as `return x`) or a view of it (x1' = x2, x2' = x1
    # written as `return x[::-1]`): the derivative then IS the caller's state vector, which the iterator must still leave alone
    for kind, rhs in (("state_itself", lambda x: x), ("view_of_state", lambda x: x[::-1])):
        X2 = np.array(case["x0"], dtype=float)
        X2copy = X2.copy()

        def f2(tt, x, getDt=False, rhs=rhs):
            d = rhs(x)
            return (d, dt) if getDt else d

        Xn2, _ = fn(f2, t, X2, upd)
        if X2.tobytes() != X2copy.tobytes():
            out.fail("state_modified_direct", "%s modified the state vector it was given when the right-hand side returns %s: %r became %r" % (it, "its argument" if kind == "state_itself" else "a view of its argument", Xcopy.tolist(), X2.tolist()), rhs=kind)
            continue
        c = lambda x: np.array(rhs(x), dtype=float)      # reference step on copies
        if it == "euler":
            ref = X2copy + c(X2copy) * dt
        else:
            k1 = c(X2copy)
            k2 = c(X2copy + k1 * dt / 2)
            k3 = c(X2copy + k2 * dt / 2)
            k4 = c(X2copy + k3 * dt)
            ref = X2copy + (k1 + 2 * k2 + 2 * k3 + k4) / 6 * dt
        if not np.allclose(np.asarray(Xn2, dtype=float), ref, rtol=1e-12, atol=1e-300):      # atol: subnormal initial values round at 5e-324
            out.fail("step_differs_from_documented_formula", "%s with a right-hand side returning %s: step gives %r, the documented formula %r" % (it, kind, np.asarray(Xn2).tolist(), ref.tolist()), rhs=kind)
    # through the solver: one model step
    fam_case = dict(case)
    entry = case.get("entry", "direct")
    if entry != "direct":
        fam_case["t0"] = 0.0 if case["family"] != "poly" else 0.0
        t = 0.0
        out.label("entry_" + entry)
    g, ex, y0, rate = problem(fam_case)
    m = make_model(g, y0, t, dt)
    x_before = m.xs[0].copy()
    _solve(m, 3 * dt, it, 1e-12, entry, dt)
    if m.xs[0].tobytes() != x_before.tobytes():
        out.fail("state_modified_solve", "solve modified the model's state array in place")
    # split calls per step
    steps, cur = [], []
    for c in m.calls:
        if c is None:
            steps.append(cur)
            cur = []
        else:
            cur.append(c)
    for k, (ts, c) in enumerate(zip(m.t[:-1], steps)):
        hk = m.t[k + 1] - ts
        if hk < 0.5 * dt:     # clamped last sliver
            continue
        exp = [ts] if it == "euler" else [ts, ts + hk / 2, ts + hk / 2, ts + hk]
        tolk = 8 * np.spacing(max(abs(ts), abs(ts + hk)))
        if len(c) != len(exp) or any(abs(a - b) > tolk for a, b in zip(c, exp)):
            out.fail("stage_times_solve", "%s step %d from t=%r dt=%r: derivative evaluated at %r, documented %r" % (it, k, ts, hk, c, exp))
            break
    return out


def _case(iterators, fams):
    @st.composite
    def s(draw):
        it = draw(st.sampled_from(iterators))
        fam = draw(st.sampled_from(fams))
        p = [draw(st.floats(0.2, 3.0)) * draw(st.sampled_from([-1.0, 1.0])) for _ in range(3)]
        x0 = [draw(st.floats(0.1, 2.0)) * draw(st.sampled_from([-1.0, 1.0])) for _ in range(draw(st.integers(1, 3)))]
        int_state = draw(st.integers(0, 5)) == 5
        if int_state:
            x0 = [float(draw(st.sampled_from([1, 2, -1, -2]))) for _ in x0]        # handed to the solver as an integer array
        t0 = draw(st.sampled_from([0.0, 0.0, 0.5, 1.0, 3.0]) if fam != "poly" else st.sampled_from([0.5, 1.0, 2.0]))
        case = {"iterator": it, "family": fam, "p": p, "x0": x0, "t0": t0, "h": 1.0, "nsteps": 1}
        if int_state:
            case["int_state"] = True
        rate = problem(case)[3]
        if it == "euler":
            rh = draw(st.floats(1e-3, 1e-2))
        else:
            rh = draw(st.floats(0.03, 0.25))
        span = draw(st.floats(0.5, 3.0))
        h = rh / max(rate, 1e-3)
        case["h"] = h
        case["nsteps"] = max(4, int(round(span / max(rate, 1e-3) / h)))
        tail = draw(st.sampled_from([0.0, 0.0, 0.5, 0.3, 1e-1, 1e-2, 1e-3]))
        if tail:
            case["tail"] = tail
        mk = draw(st.sampled_from(["tiny", "tiny", "default", "above_tail", "quarter_step"]))
        T = (case["nsteps"] + tail)
        cap = 0.1 / T                      # the minimum step stays below the finest step used (h/8)
        case["minfrac"] = {"tiny": 1e-12, "default": 1e-8, "above_tail": min(cap, 2 * tail / T) if tail else 1e-8, "quarter_step": cap}[mk]
        entry = draw(st.sampled_from(["direct", "direct", "coupler", "coupler2"]))
        if entry != "direct":
            case["entry"] = entry
        return case
    return s()


def _stage_case():
    @st.composite
    def s(draw):
        it = draw(st.sampled_from(["euler", "rk4"]))
        fam = draw(st.sampled_from(FAMILIES))
        p = [draw(st.floats(0.2, 3.0)) * draw(st.sampled_from([-1.0, 1.0])) for _ in range(3)]
        x0 = [draw(st.floats(-2, 2)) for _ in range(draw(st.integers(1, 5)))]
        t0 = draw(st.one_of(st.just(0.0), st.floats(0, 1e6), st.floats(0.5, 5)))
        if fam == "poly":
            t0 = max(t0, 0.5)
        h = draw(st.one_of(st.floats(1e-6, 1e3), st.floats(1e-3, 1.0)))
        case = {"iterator": it, "family": fam, "p": p, "x0": x0, "t0": t0, "h": h}
        entry = draw(st.sampled_from(["direct", "direct", "coupler", "coupler2"]))
        if entry != "direct":
            case["entry"] = entry
        return case
    return s()


def clauses():
    return [
        Clause("order", lambda: _case(["euler", "rk4"], FAMILIES), check_order, quick=480, thorough=12000,
               rule="generator: closed-form ODE family x params x initial value x start time x step (rate*h in [1e-3,1e-2] Euler, [0.03,0.25] RK4), "
                    "constant step through getDt, three resolutions h,h/2,h/4, through solve() of the model or of a Coupler wrapping it (alone or next to a second model) with duration = (n + tail) steps (tail in {0, 1e-3..0.5}) and minDtFrac in {1e-12, 1e-8, 2 tail/n, 0.1/n}; non-trivial: non-autonomous family judged inside the asymptotic window",
               shrink=False),
        Clause("stages", _stage_case, check_stages, quick=2000, thorough=60000,
               rule="generator: iterator x t0 in [0,1e6] x dt in [1e-6,1e3] x state length 1-5; the iterator is called directly with a recording f, with right-hand sides returning the state itself or a view of it (state unchanged bitwise, step = documented formula on copies), and through solve() of the model or of a Coupler wrapping it; "
                    "non-trivial: RK4 with dt resolvable against t"),
    ]
