"""Coverage-guided tier: drives a clause's Hypothesis test through atheris (libFuzzer) via
`test.hypothesis.fuzz_one_input`, with the semantic oracle inside the target.

usage: python -m vk.fuzz <Cxx> <clause> <runs> <seed> <out.json>

The kawin modules that implement the target are instrumented for coverage; violations are
collected exactly as in the Hypothesis tier (the body never raises, so the campaign continues
behind a finding) and written to <out.json>.  Exit code 3 if atheris cannot be imported.
"""
import json
import os
import sys
import time

INSTRUMENT = {
    "C05": ["kawin.solver", "kawin.GenericModel"],
    "C07": ["kawin.precipitation.PopulationBalance", "kawin.precipitation.coupling.GrainGrowth"],
    "C08": ["kawin.precipitation.PopulationBalance"],
    "C09": ["kawin.diffusion.DiffusionParameters"],
    "C14": ["kawin.precipitation.NucleationRate", "kawin.precipitation.parameters.Nucleation"],
    "C15": ["kawin.precipitation.parameters.ShapeFactors"],
    "C17": ["kawin.diffusion.HomogenizationParameters"],
    "C18": ["kawin.precipitation.coupling.Strength"],
}


def main():
    prop, cname, runs, seed, outp = sys.argv[1], sys.argv[2], int(sys.argv[3]), int(sys.argv[4]), sys.argv[5]
    here = os.path.dirname(os.path.dirname(os.path.abspath(__file__)))
    sys.path.insert(0, os.path.join(here, ".deps"))
    try:
        import atheris
    except Exception as e:      # pragma: no cover
        json.dump({"fallback": repr(e)}, open(outp, "w"))
        return 3
    from . import core
    core.use_repo()
    with atheris.instrument_imports(include=INSTRUMENT.get(prop, ["kawin"])):
        import kawin.solver.Solver  # noqa
        import kawin.GenericModel  # noqa
        import kawin.precipitation.PopulationBalance  # noqa
        import kawin.precipitation.coupling.GrainGrowth  # noqa
        import kawin.precipitation.coupling.Strength  # noqa
        import kawin.precipitation.NucleationRate  # noqa
        import kawin.precipitation.parameters.Nucleation  # noqa
        import kawin.precipitation.parameters.ShapeFactors  # noqa
        import kawin.diffusion.DiffusionParameters  # noqa
        import kawin.diffusion.HomogenizationParameters  # noqa
    from .runner import load_module, load_findings, get_clauses
    from hypothesis import given, settings, HealthCheck, Phase, Verbosity
    mod = load_module(prop)
    findings = load_findings(prop, mod)
    clause = [c for c in get_clauses(mod) if c.name == cname][0]
    res = core.ShardResult()
    seen = set()

    def body(case):
        h = core.case_hash(case)
        if h in seen:
            return
        seen.add(h)
        core.run_case(clause, case, findings, res)

    st = settings(database=None, deadline=None, suppress_health_check=list(HealthCheck), verbosity=Verbosity.quiet)
    test = st(given(clause.strategy())(body))
    t0 = time.time()
    corpus = os.path.join(here, "scratch", "corpus_%s_%s_%d" % (prop, cname, os.getpid()))
    os.makedirs(corpus, exist_ok=True)
    argv = [sys.argv[0], "-runs=%d" % runs, "-seed=%d" % (seed or 1), "-max_len=4096", "-verbosity=0", "-print_final_stats=0", corpus]
    # atheris.Fuzz() calls os._exit, so write the result from inside the process before that: libFuzzer
    # invokes the target `runs` times; count invocations and dump on the last one
    state = {"n": 0}
    orig = test.hypothesis.fuzz_one_input

    def target(data):
        state["n"] += 1
        try:
            return orig(data)
        finally:
            if state["n"] % 2000 == 0 or state["n"] >= runs:
                dump_partial()

    def dump_partial():
        d = res.to_dict()
        d["wall"] = time.time() - t0
        d["runs_requested"] = runs
        d["executions"] = state["n"]
        d["distinct_cases"] = len(seen)
        json.dump(d, open(outp + ".tmp", "w"))
        os.replace(outp + ".tmp", outp)

    atheris.Setup(argv, target)
    atheris.Fuzz()
    return 0


if __name__ == "__main__":
    sys.exit(main())
