#!/bin/sh
# Offline setup: make sure hypothesis is importable in /venv; create output dirs. atheris is optional (thorough tier only).
HERE="$(cd "$(dirname "$0")" && pwd)"
cd "$HERE" || exit 2
mkdir -p evidence replays scratch
/venv/bin/python -c "import hypothesis" 2>/dev/null || /venv/bin/pip install --no-index --find-links /opt/veriftools/wheels hypothesis || exit 1
if [ ! -d .deps/atheris ]; then
  /venv/bin/pip install -q --no-index --find-links /opt/veriftools/wheels --target .deps atheris >/dev/null 2>&1 || echo "atheris not installed (optional)"
fi
/venv/bin/python -c "import hypothesis, numpy, scipy; print('setup ok: hypothesis', hypothesis.__version__)"
