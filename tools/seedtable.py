#!/usr/bin/env python3
"""Writes seeded/README.md from the meta.json files of the stored seeded changes."""
import glob, json, os
HERE = os.path.dirname(os.path.dirname(os.path.abspath(__file__)))
rows = []
for m in sorted(glob.glob(os.path.join(HERE, "seeded", "*", "meta.json"))):
    d = json.load(open(m))
    patch = open(os.path.join(os.path.dirname(m), "patch.diff")).read()
    files = sorted({l[6:] for l in patch.splitlines() if l.startswith("+++ b/")})
    first = d["checks_run"]
    last = d["rechecks"][-1]["checks_run"] if d.get("rechecks") else first
    def fmt(cs):
        return "; ".join("%s exit %d%s" % (c["property"], c["exit"], (" (" + c["kinds"].strip() + ")") if c["kinds"].strip() else "") for c in cs)
    caught_first = any(c["exit"] == 1 for c in first) and not d.get("pre_strengthened")
    caught = any(c["exit"] == 1 for c in last)
    rows.append((d["id"], ", ".join(files), d["needs"], "yes" if caught_first else "no", fmt(last) if d.get("rechecks") else fmt(first),
                 d["rechecks"][-1]["note"] if d.get("rechecks") else d.get("pre_strengthened", ""), caught))
with open(os.path.join(HERE, "seeded", "README.md"), "w") as f:
    f.write("# Seeded changes\n\nEach directory holds one change to kawin written by a fresh sub-agent that saw only the property text and a scratch worktree "
            "(`patch.diff`), its demonstration (`demo.py`, `demo_with.txt` exit 1, `demo_without.txt` exit 0), the suite result with the change (`suite_with.txt`, 97 passed) "
            "and `meta.json` (what was run: `tools/seed.sh`, re-checks: `tools/reseed.py`).  None of them is ever committed to /repo.\n\n"
            "| id | file changed | what it needs to manifest | caught by the check as it was | quick checks against it (final) | strengthening |\n|---|---|---|---|---|---|\n")
    for r in rows:
        f.write("| %s | %s | %s | %s | %s | %s |\n" % r[:6])
    f.write("\n%d changes, %d detected by the final checks, %d of them only after the check was strengthened.\n" % (len(rows), sum(r[6] for r in rows), sum(1 for r in rows if r[3] == "no" and r[6])))
print(open(os.path.join(HERE, "seeded", "README.md")).read())
