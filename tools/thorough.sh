#!/bin/sh
# usage: tools/thorough.sh "<props>"  - runs the thorough tier (against $VP_RUN_REPO when set), one line per property
cd "$(dirname "$0")/.."
[ -n "${VP_RUN_REPO:-}" ] && export KAWIN_SRC="$VP_RUN_REPO"
[ -d .deps ] || sh ./setup.sh >/dev/null 2>&1
for p in $1; do
  out=$(./check $p thorough 2>&1); rc=$?
  echo "$p rc=$rc $(echo "$out" | tail -1 | cut -c1-160)"
  echo "$out" | grep -E "^  clause" | cut -c1-220
  if [ $rc -ne 0 ]; then echo "$out" | grep -E "VIOLATION|HARNESS|^  \[" | cut -c1-500 | head -12; fi
done
