#!/usr/bin/env python3
"""Sensitivity campaign: applies each hand-made mutant of tools/mutants.py to a scratch copy of kawin (never to /repo),
runs the named quick checks against it (KAWIN_SRC), and records which violation kinds fired.

usage: tools/mutrun.py [--only id[,id...]] [--prop Cxx] [--par N] [--scale f]
Results: sensitivity/results.json (merged across invocations) and sensitivity/README.md (table).
A mutant counts as detected when a check exits 1; `expect` lists the kinds it was written to provoke.
"""
import argparse
import concurrent.futures as cf
import json
import os
import re
import shutil
import subprocess
import sys
import tempfile

HERE = os.path.dirname(os.path.dirname(os.path.abspath(__file__)))
sys.path.insert(0, os.path.join(HERE, "tools"))
from mutants import MUTANTS  # noqa


def run_one(m, scale, jobs):
    d = tempfile.mkdtemp(prefix="kwmut.")
    try:
        src = os.path.join(d, "src")
        os.makedirs(src)
        shutil.copytree(os.path.join(os.environ.get("KAWIN_MUT_BASE", "/repo"), "kawin"), os.path.join(src, "kawin"), ignore=shutil.ignore_patterns("__pycache__"))
        os.symlink("/repo/examples", os.path.join(src, "examples"))
        path = os.path.join(src, m["file"])
        s = open(path).read()
        n = s.count(m["old"])
        if n != m.get("count", 1):
            return dict(m, status="not_applied", note="pattern found %d times" % n, runs=[])
        open(path, "w").write(s.replace(m["old"], m["new"]))
        runs = []
        for chk in m["checks"]:
            prop, _, clause = chk.partition(":")
            cmd = ["./check", prop, "quick", "--no-evidence", "--scale", str(m.get("scale", scale)), "--jobs", str(jobs)]
            if clause:
                for c in clause.split("+"):
                    cmd += ["--clause", c]
            env = dict(os.environ, KAWIN_SRC=src, VK_REPLAY_DIR=os.path.join(d, "replays"))
            r = subprocess.run(cmd, cwd=HERE, env=env, capture_output=True, text=True)
            kinds = sorted(set("%s:%s" % k for k in re.findall(r"^  \[(\w+)\] ([^: ]+)", r.stdout, flags=re.M)))
            runs.append({"check": chk, "exit": r.returncode, "kinds": kinds, "tail": r.stdout.strip().splitlines()[-1][:200] if r.stdout.strip() else r.stderr[-300:]})
        detected = any(x["exit"] == 1 for x in runs)
        fired = set(k.split(":", 1)[1] for x in runs for k in x["kinds"])
        exp = set(m.get("expect", []))
        return dict(m, status="detected" if detected else ("harness_error" if any(x["exit"] == 2 for x in runs) else "missed"),
                    expected_fired=sorted(exp & fired), expected_silent=sorted(exp - fired), runs=runs)
    finally:
        shutil.rmtree(d, ignore_errors=True)


def main():
    ap = argparse.ArgumentParser()
    ap.add_argument("--only")
    ap.add_argument("--prop")
    ap.add_argument("--par", type=int, default=3)
    ap.add_argument("--scale", type=float, default=0.5)
    a = ap.parse_args()
    sel = MUTANTS
    if a.only:
        ids = set(a.only.split(","))
        sel = [m for m in sel if m["id"] in ids]
    if a.prop:
        sel = [m for m in sel if any(c.startswith(a.prop) for c in m["checks"])]
    jobs = max(2, 16 // a.par)
    out = os.path.join(HERE, "sensitivity")
    os.makedirs(out, exist_ok=True)
    rp = os.path.join(out, "results.json")
    results = json.load(open(rp)) if os.path.exists(rp) else {}
    with cf.ThreadPoolExecutor(a.par) as ex:
        for res in ex.map(lambda m: run_one(m, a.scale, jobs), sel):
            results[res["id"]] = {k: res[k] for k in ("id", "file", "what", "checks", "expect", "status", "expected_fired", "expected_silent", "runs", "note") if k in res}
            print(res["id"], res["status"], "fired:", sorted(set(k for x in res["runs"] for k in x["kinds"])), "| expected but silent:", res.get("expected_silent"), res.get("note", ""), flush=True)
    json.dump(results, open(rp, "w"), indent=1, sort_keys=True)
    rev = subprocess.run(["git", "-C", "/repo", "rev-parse", "--short", "HEAD"], capture_output=True, text=True).stdout.strip()
    with open(os.path.join(out, "README.md"), "w") as f:
        f.write("# Sensitivity: hand-made mutants\n\nEach mutant is one literal replacement in a scratch copy of kawin (`tools/mutants.py`, run by `tools/mutrun.py`; /repo is never touched; last run against kawin %s). "
                "`status` is *detected* when a named quick check exits 1 on the mutant. The suite column is not evaluated here: these are probes of the checks, not candidate seeded changes.\n\n"
                "| id | file | mutation | checks run | status | violation kinds reported | expected kinds that stayed silent |\n|---|---|---|---|---|---|---|\n" % rev)
        for k in sorted(results):
            r = results[k]
            f.write("| %s | %s | %s | %s | %s | %s | %s |\n" % (k, r["file"].replace("kawin/", ""), r.get("what", ""), " ".join(r["checks"]), r["status"],
                                                          " ".join(sorted(set(x for y in r["runs"] for x in y["kinds"]))), " ".join(r.get("expected_silent", []))))
        n = len(results)
        f.write("\n%d mutants: %d detected, %d missed, %d not applied / harness error.\n" % (n, sum(r["status"] == "detected" for r in results.values()), sum(r["status"] == "missed" for r in results.values()),
                                                                                     sum(r["status"] not in ("detected", "missed") for r in results.values())))


if __name__ == "__main__":
    main()
