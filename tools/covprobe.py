#!/venv/bin/python
"""Which parts of kawin do the checks actually execute?  (generator-coverage probe, not a verification step)

usage: PYTHONPATH=/verif /venv/bin/python tools/covprobe.py [examples-per-clause] [Cxx ...]

Runs every clause of the selected properties in-process for a few generated examples under sys.settrace restricted to
kawin's files, then lists per file the fraction of executable lines hit and every function of which no line was executed.
Output: sensitivity/coverage.md (committed as documentation of what the generators reach).
"""
import ast
import io
import os
import sys
import threading

HERE = os.path.dirname(os.path.dirname(os.path.abspath(__file__)))
sys.path.insert(0, HERE)
from vk import core  # noqa

core.use_repo()
SRC = os.path.abspath(core.KAWIN_SRC) + os.sep + "kawin" + os.sep
hit = {}


def tracer(frame, event, arg):
    fn = frame.f_code.co_filename
    if not fn.startswith(SRC) or os.sep + "tests" + os.sep in fn:
        return None
    if event in ("line", "call"):
        hit.setdefault(fn, set()).add(frame.f_lineno)
    return tracer


def main():
    n = int(sys.argv[1]) if len(sys.argv) > 1 and sys.argv[1].isdigit() else 12
    props = [a for a in sys.argv[1:] if a.upper().startswith("C")] or ["C%02d" % i for i in range(1, 21)]
    from vk.runner import load_module, load_findings, get_clauses
    import hypothesis
    from hypothesis import given, settings, HealthCheck, Phase
    per_prop = {}
    for prop in props:
        mod = load_module(prop.upper())
        findings = load_findings(prop.upper(), mod)
        before = {f: set(v) for f, v in hit.items()}
        for clause in get_clauses(mod):
            res = core.ShardResult()
            budget = max(3, min(n, clause.budget["quick"]))

            def mk(clause, res):
                def body(case):
                    core.run_case(clause, case, findings, res)
                return body
            body = mk(clause, res)
            st = settings(max_examples=budget, database=None, deadline=None, phases=(Phase.generate,), suppress_health_check=list(HealthCheck))
            test = hypothesis.seed(1)(st(given(clause.strategy())(body)))
            sys.settrace(tracer)
            threading.settrace(tracer)
            try:
                test()
            except Exception as e:      # pragma: no cover
                print("clause %s:%s raised %r" % (prop, clause.name, e))
            finally:
                sys.settrace(None)
                threading.settrace(None)
            print("%s:%s %d cases, harness errors %d" % (prop, clause.name, res.evaluations, len(res.harness_errors)), flush=True)
        per_prop[prop] = {f: set(v) - before.get(f, set()) for f, v in hit.items()}
    # report
    lines = ["# What the generators reach inside kawin\n", "Produced by `tools/covprobe.py` (%d examples per clause, properties: %s).  Executable lines = lines of function bodies per `ast`; "
             "a function is listed when none of its lines ran.  Plot/print helpers and abstract stubs are expected here.\n" % (n, " ".join(props)),
             "| file | lines hit / executable | functions never entered |", "|---|---|---|"]
    for root, _, files in os.walk(SRC):
        if os.sep + "tests" in root:
            continue
        for f in sorted(files):
            if not f.endswith(".py"):
                continue
            path = os.path.join(root, f)
            try:
                tree = ast.parse(open(path).read())
            except SyntaxError:
                continue
            exe, never = set(), []
            for node in ast.walk(tree):
                if isinstance(node, (ast.FunctionDef, ast.AsyncFunctionDef)):
                    body_lines = set()
                    for sub in node.body:
                        if isinstance(sub, ast.Expr) and isinstance(getattr(sub, "value", None), ast.Constant) and isinstance(sub.value.value, str):
                            continue          # docstring
                        for x in ast.walk(sub):
                            if hasattr(x, "lineno") and isinstance(x, ast.stmt):
                                body_lines.add(x.lineno)
                    exe |= body_lines
                    if body_lines and not (body_lines & hit.get(path, set())):
                        never.append(node.name)
            if not exe:
                continue
            h = len(exe & hit.get(path, set()))
            lines.append("| %s | %d / %d (%.0f%%) | %s |" % (os.path.relpath(path, SRC), h, len(exe), 100.0 * h / len(exe), ", ".join(sorted(never))))
    out = os.path.join(HERE, "sensitivity", "coverage.md")
    os.makedirs(os.path.dirname(out), exist_ok=True)
    open(out, "w").write("\n".join(lines) + "\n")
    print("written", out)


if __name__ == "__main__":
    main()
