#!/bin/sh
# usage: tools/sweep.sh "<props>" "<seeds>"   - runs quick checks over several seeds, prints one line per run
cd "$(dirname "$0")/.."
[ -n "${VP_RUN_REPO:-}" ] && export KAWIN_SRC="$VP_RUN_REPO"
[ -d .deps ] || sh ./setup.sh >/dev/null 2>&1
for p in $1; do for s in $2; do
  out=$(VERIF_SEED=$s ./check $p quick --no-evidence 2>&1); rc=$?
  echo "$p seed=$s rc=$rc $(echo "$out" | tail -1 | cut -c1-150)"
  if [ $rc -ne 0 ]; then echo "$out" | grep -E "VIOLATION|HARNESS|^  \[" | cut -c1-400 | head -8; fi
done; done
