#!/bin/sh
# usage: tools/mut.sh <patchfile|-e 'python-expr-free sed script' file> -- <check args...>
# Copies /repo/kawin to a scratch dir, applies a patch (git apply) or sed edit, runs the check against it, removes the copy.
set -e
D=$(mktemp -d /tmp/kwmut.XXXXXX)
mkdir -p "$D/src"
cp -r /repo/kawin "$D/src/kawin"; ln -s /repo/examples "$D/src/examples"
if [ "$1" = "-e" ]; then
  sed -i -E "$2" "$D/src/$3"; shift 3
  (cd /repo && diff -u "$3" "$D/src/$3" | head -0) 2>/dev/null || true
else
  (cd "$D/src" && patch -p1 -s < "$1"); shift 1
fi
[ "$1" = "--" ] && shift
cd "$(dirname "$0")/.."
set +e
KAWIN_SRC="$D/src" ./check "$@" --no-evidence
rc=$?
rm -rf "$D"
echo "mutant exit code: $rc"
exit 0
