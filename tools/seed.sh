#!/bin/sh
# usage: tools/seed.sh <seed-id> <worktree> "<props to run>" ["what it needs"]
# Verifies a seeded change produced in a scratch worktree (suite passes with it, demo fails with / passes without),
# stores it under /verif/seeded/<id>/, applies it to /repo, runs the listed quick checks, and undoes it.
set -u
ID=$1; WT=$2; PROPS=$3; NEEDS=${4:-}
HERE="$(cd "$(dirname "$0")/.." && pwd)"
D="$HERE/seeded/$ID"; mkdir -p "$D"
git -C "$WT" diff -- kawin > "$D/patch.diff"
[ -s "$D/patch.diff" ] || { echo "empty patch"; exit 2; }
cp "$WT/demo.py" "$D/demo.py" 2>/dev/null
# 1. demo with the change
(cd "$WT" && PYTHONPATH="$WT" timeout 600 /venv/bin/python demo.py > "$D/demo_with.txt" 2>&1); RC_WITH=$?
# 2. suite with the change
(cd "$WT" && PYTHONPATH="$WT" timeout 1500 /venv/bin/python -m pytest -q -p no:cacheprovider kawin/tests 2>&1 | tail -1 > "$D/suite_with.txt")
# 3. demo without the change
git -C "$WT" stash -q -- kawin
(cd "$WT" && PYTHONPATH="$WT" timeout 600 /venv/bin/python demo.py > "$D/demo_without.txt" 2>&1); RC_WITHOUT=$?
git -C "$WT" stash pop -q
echo "demo with change: rc=$RC_WITH ; without: rc=$RC_WITHOUT ; suite: $(cat $D/suite_with.txt)"
# 4. run the checks against /repo with the change applied
git -C /repo diff --quiet || { echo "/repo is dirty, refusing"; exit 2; }
git -C /repo apply "$D/patch.diff" || { echo "patch does not apply to /repo"; exit 2; }
RES=""
for p in $PROPS; do
  out=$(cd "$HERE" && ./check $p quick --no-evidence 2>&1); rc=$?
  kinds=$(echo "$out" | grep -E "^  \[" | sed -E 's/^  \[([a-z_A-Z0-9]+)\] ([^:]+):.*/\1:\2/' | sort -u | tr '\n' ' ')
  echo "  $p rc=$rc $kinds"
  RES="$RES{\"property\":\"$p\",\"exit\":$rc,\"kinds\":\"$kinds\"},"
done
git -C /repo checkout -- .
rm -f "$HERE"/replays/*.json
python3 - "$D" "$ID" "$RC_WITH" "$RC_WITHOUT" "$NEEDS" "[${RES%,}]" <<'PY'
import json,sys,os
d,i,rw,rwo,needs,res=sys.argv[1:7]
meta={"id":i,"breaks_property":i.split("-")[0],"needs":needs,"demo_exit_with_change":int(rw),"demo_exit_without_change":int(rwo),
      "suite_with_change":open(os.path.join(d,"suite_with.txt")).read().strip(),"checks_run":json.loads(res),
      "what_i_ran":"tools/seed.sh: demo with/without the change in the scratch worktree, full kawin test suite with the change, then `git -C /repo apply patch.diff`, quick checks, `git -C /repo checkout -- .`"}
json.dump(meta,open(os.path.join(d,"meta.json"),"w"),indent=1)
PY
