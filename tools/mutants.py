"""Hand-made mutants for the sensitivity campaign (tools/mutrun.py).
Each entry: id, file (relative to the kawin checkout), old -> new (literal, must occur exactly `count` times, default 1),
checks ("Cxx" or "Cxx:clause[+clause]"), expect (violation kinds the mutant was written to provoke), what (one line)."""

PBM = "kawin/precipitation/PopulationBalance.py"
MUTANTS = []


def M(id, file, old, new, checks, expect, what, **kw):
    MUTANTS.append(dict(id=id, file=file, old=old, new=new, checks=checks, expect=expect, what=what, **kw))


# ------------------------------------------------------------------ population balance (C07, C08)
M("pbm-flux-sign", PBM, "self._netFlux[:-1] += flux[:-1] * psd * (1-fluxSign[:-1]) / dR", "self._netFlux[:-1] += flux[:-1] * psd * (1-fluxSign[:-1]) / dR * 1.0000001",
  ["C07:transport+limited"], ["upwind_mismatch", "unlimited_face_changed"], "dissolution flux scaled by 1+1e-7")
M("pbm-sum-rule", PBM, "dXdt = (self._netFlux[:-1] - self._netFlux[1:])\n\n        #Find size class for nucleated particles\n        nRad = np.argmax(self.PSDbounds > nucRadius) - 1\n        #A radius below the smallest size class goes to the first class (index -1 would wrap around to the largest class)\n        if nucRadius < self.PSDbounds[0]:\n            nRad = 0\n        dXdt[nRad] += nucRate\n\n        return dXdt\n    \n    def correctdXdtEuler",
  "dXdt = (self._netFlux[:-1] - self._netFlux[1:])\n        dXdt[0] += 1e-9 * abs(self._netFlux[1])\n\n        #Find size class for nucleated particles\n        nRad = np.argmax(self.PSDbounds > nucRadius) - 1\n        if nucRadius < self.PSDbounds[0]:\n            nRad = 0\n        dXdt[nRad] += nucRate\n\n        return dXdt\n    \n    def correctdXdtEuler",
  ["C07:transport+after_history"], ["sum_rule", "upwind_mismatch", "sum_rule_after_history"], "first class gains 1e-9 of the flux through its upper face")
M("pbm-nuc-class", PBM, "nRad = np.argmax(self.PSDbounds > nucRadius) - 1\n        #A radius below the smallest size class goes to the first class (index -1 would wrap around to the largest class)\n        if nucRadius < self.PSDbounds[0]:\n            nRad = 0\n        dXdt[nRad] += nucRate\n\n        return dXdt\n    \n    def correctdXdtEuler",
  "nRad = np.argmax(self.PSDbounds >= nucRadius) - 1\n        if nucRadius <= self.PSDbounds[0]:\n            nRad = 0\n        dXdt[nRad] += nucRate\n\n        return dXdt\n    \n    def correctdXdtEuler",
  ["C07:transport+after_history"], ["nucleation_class", "nucleation_class_after_history"], "a nucleation radius exactly on a class boundary goes to the class below")
M("pbm-nuc-class-corrected", PBM, "nRad = np.argmax(self.PSDbounds > nucRadius) - 1\n        #A radius below the smallest size class goes to the first class (index -1 would wrap around to the largest class)\n        if nucRadius < self.PSDbounds[0]:\n            nRad = 0\n        dXdt[nRad] += nucRate\n\n        return dXdt\n    \n    def UpdatePBMEuler",
  "nRad = min(np.argmax(self.PSDbounds > nucRadius), self.bins - 1)\n        if nucRadius < self.PSDbounds[0]:\n            nRad = 0\n        dXdt[nRad] += nucRate\n\n        return dXdt\n    \n    def UpdatePBMEuler",
  ["C07:limited"], ["nucleation_class_corrected"], "corrected derivative puts nuclei one class too high")
M("pbm-limit-above", PBM, "indAbove = self._netFlux[1:]*dt > psd\n        self._netFlux[1:][indAbove] = psd[indAbove] / dt", "indAbove = self._netFlux[1:]*dt > 2*psd\n        self._netFlux[1:][indAbove] = 2*psd[indAbove] / dt",
  ["C07:limited+after_history"], ["face_loss_exceeds_content", "negative_under_limit"], "growth faces limited to twice the class content")
M("pbm-limit-below-sign", PBM, "self._netFlux[:-1][indBelow] = -psd[indBelow] / dt", "self._netFlux[:-1][indBelow] = psd[indBelow] / dt",
  ["C07:limited"], ["face_direction_reversed", "corrected_sum"], "limited dissolution flux gets the wrong sign")
M("pbm-limit-unlimited", PBM, "indBelow = self._netFlux[:-1]*dt < -psd", "indBelow = self._netFlux[:-1]*dt < -0.5*psd",
  ["C07:limited"], ["unlimited_face_changed"], "dissolution faces limited already at half the content")
M("pbm-dt-ratio", PBM, "return self.maxRatio * (self.PSDbounds[1] - self.PSDbounds[0]) / np.amax(np.abs(growthFilter))", "return self.maxRatio * (self.PSDbounds[1] - self.PSDbounds[0]) / np.amax(np.abs(growth))",
  ["C07:dtlimit+after_history"], ["step_limit_value", "step_limit_value_after_history"], "step limit uses every face instead of populated classes above the dissolution index")
M("pbm-diss-index", PBM, "return np.amax([np.argmax(self.CumulativeMoment(3) > dissFrac), minIndex])", "return np.amax([np.argmax(self.CumulativeMoment(3) > dissFrac) + 1, minIndex])",
  ["C07:dtlimit"], ["dissolution_index_volume"], "dissolution index one class too high")
M("pbm-diss-min", PBM, "return np.amax([np.argmax(self.CumulativeMoment(3) > dissFrac), minIndex])", "return np.argmax(self.CumulativeMoment(3) > dissFrac)",
  ["C07:dtlimit"], ["dissolution_index_below_min"], "minimum dissolution index ignored")
M("pbm-getdt-mutates", PBM, "self.maxRatio = maxBinRatio\n", "self.maxRatio = maxBinRatio\n        self.PSD[self.PSD < 1] = 0\n",
  ["C07:dtlimit"], ["psd_modified"], "getDTEuler removes classes below one particle from the stored distribution")
M("pbm-inputs-mutated", PBM, "fluxSign = np.sign(flux)\n        fluxSign[fluxSign == -1] = 0", "fluxSign = np.sign(flux)\n        fluxSign[fluxSign == -1] = 0\n        psd[psd < 1] = 0",
  ["C07:transport"], ["inputs_modified"], "getdXdtEuler writes into the distribution passed to it")
M("pbm-extend-width", PBM, "self.max += bins * (self.PSDbounds[1] - self.PSDbounds[0])", "self.max += bins * (self.PSDbounds[-1] - self.PSDbounds[0]) / (self.bins - bins + 1)",
  ["C08:history"], ["extend_width", "extend_moved_bounds"], "extension computes the class width with an off-by-one class count")
M("pbm-extend-psd", PBM, "self.PSD = np.append(self.PSD, np.zeros(bins))", "self.PSD = np.append(self.PSD, np.zeros(bins))\n        self.PSD[self.PSD < 1] = 0",
  ["C08:history"], ["extend_changed_psd"], "extension drops classes below one particle")
M("pbm-extend-count", PBM, "        self.bins += bins\n        self.PSD = np.append(self.PSD, np.zeros(bins))", "        bins += (bins > 7)\n        self.bins += bins\n        self.PSD = np.append(self.PSD, np.zeros(bins))",
  ["C08:history"], ["extend_count"], "addSizeClasses(k) adds k+1 classes for k > 7")
M("pbm-load-grid", PBM, "self.PSD, self.PSDbounds = np.histogram(data, self.PSDbounds)", "self.PSD, self.PSDbounds = np.histogram(data, self.bins, range=(self.PSDbounds[0], self.PSDbounds[-1]*(1+1e-9)))",
  ["C08:history"], ["load_changed_grid", "load_count"], "LoadDistribution rebuilds the grid with a slightly larger maximum")
M("pbm-loadfunc", PBM, "self.PSD = function(self.PSDsize)", "self.PSD = function(self.PSDbounds[1:])",
  ["C08:history"], ["loadfunc_mismatch"], "LoadDistributionFunction evaluates at class tops instead of centres")
M("pbm-remesh-volume", PBM, "            if newV != 0:\n                self.PSD *= oldV / newV", "            if newV != 0:\n                self.PSD *= (oldV / newV) ** 0.999",
  ["C08:history"], ["remesh_volume"], "re-mesh rescales volume with exponent 0.999")
M("pbm-remesh-reset", PBM, "        if resetPSD:\n            self.reset(False)\n        else:", "        if resetPSD:\n            psd = self.PSD\n            self.reset(False)\n            self.PSD[:min(len(psd), self.bins)] = psd[:min(len(psd), self.bins)]\n        else:",
  ["C08:history"], ["remesh_reset_not_empty"], "changeSizeClasses(resetPSD=True) keeps the old populations")
M("pbm-reset-grid", PBM, "            self.max = self.originalMax\n", "            self.max = max(self.originalMax, self.max)\n",
  ["C08:history"], ["reset_mismatch"], "reset keeps an enlarged maximum")
M("pbm-revert", PBM, "        self.PSD = copy.copy(self._prevPSD)\n", "        self.PSD = copy.copy(self._prevPSD) * (1 + 1e-12)\n",
  ["C08:history"], ["revert_mismatch"], "revert restores the populations times 1+1e-12")
M("pbm-update", PBM, "        self.PSD = newN\n        self.PSD[self.PSD < 1] = 0", "        self.PSD = newN\n        self.PSD[self.PSD <= 1] = 0",
  ["C08:history"], ["update_mismatch"], "update removes classes holding exactly one particle")
M("pbm-moment-stored", PBM, "        return np.sum(N * self.PSDsize**order * weights)", "        return np.sum(self.PSD * self.PSDsize**order * weights)",
  ["C08:moments"], ["moment_WeightedMomentFromN"], "weighted moment of a supplied distribution uses the stored one")
M("pbm-moment-cumulative", PBM, "        return np.cumsum(N * self.PSDsize**order)", "        return np.cumsum(N * self.PSDsize**order)[::-1][::-1] + 0 * self.PSD.sum() + (self.PSD.sum() > 0) * 1e-30",
  ["C08:moments"], ["moment_CumulativeMomentFromN"], "cumulative moment picks up 1e-30 when the stored distribution is populated")

# ------------------------------------------------------------------ solver and iterators (C05, C06)
SOLV, ITER, GEN = "kawin/solver/Solver.py", "kawin/solver/Iterators.py", "kawin/GenericModel.py"
M("solver-dtmin-dropped", SOLV, "            dt = dt if dt > self._dtmin else self._dtmin\n", "            dt = dt if dt > 0 else self._dtmin\n",
  ["C05"], ["step_below_min", "too_many_steps", "non_termination"], "minimum step only applied to non-positive proposals")
M("solver-nan-dt", SOLV, "            dt = dt if dt > self._dtmin else self._dtmin\n            dt = dt if dt < self._dtmax else self._dtmax\n", "            dt = dt if (dt > self._dtmin or dt != dt) else self._dtmin\n            dt = dt if (dt < self._dtmax or dt != dt) else self._dtmax\n",
  ["C05"], ["bad_dt_passed", "time_not_increasing", "end_time", "non_termination"], "NaN proposals pass both clamps")
M("solver-no-step", SOLV, "        while currTime < tf and not stop:", "        while currTime < tf - 0.25*(tf - t0) and not stop:",
  ["C05"], ["end_time", "no_step"], "loop ends a quarter of the duration early")
M("coupler-clock", GEN, "        self.time = np.append(self.time, time)\n        self.couplePostProcess()", "        self.time = np.append(self.time, time*(1 + 1e-15) if len(self.models) > 2 else time)\n        self.couplePostProcess()",
  ["C05"], ["clock_mismatch"], "coupler clock off by one part in 1e15 with three models")
M("unflatten-layout", GEN, "                X_new[i] = np.reshape(X_flat[n:n+arrLen], np.array(X_new[i]).shape)", "                X_new[i] = np.reshape(X_flat[n:n+arrLen], np.array(X_new[i]).shape[::-1])",
  ["C05"], ["state_layout"], "2-D state blocks come back transposed in shape")
M("unflatten-scalar", GEN, "                X_new[i] = X_flat[n]\n                n += 1", "                X_new[i] = X_flat[n:n+1]\n                n += 1",
  ["C05"], ["state_layout"], "scalar state entries come back as length-1 arrays")
M("euler-dt-returned", ITER, "    dxdt, dt = f(t, X_old, True)\n    return updateX(X_old, dxdt, dt), dt", "    dxdt, dt = f(t, X_old, True)\n    return updateX(X_old, dxdt, dt), dt*(1 + 1e-15)",
  ["C06:stages", "C05"], ["dt_returned", "end_time"], "Euler returns a step one ulp larger than the one it used")
M("rk4-state-modified", ITER, "    k1 = dxdt\n    X_k1 = updateX(X_old, k1, dt/2)\n", "    k1 = dxdt\n    X_k1 = updateX(X_old, k1, dt/2)\n    X_old += 0*k1\n    X_old[0] = X_old[0] + 0.0\n    X_old *= 1.0\n    X_old[...] = X_old + 1e-300\n",
  ["C06:stages"], ["state_modified_direct", "state_modified_solve"], "RK4 writes (a denormal increment) into the state vector it was given")
M("rk4-stage-sum-alias", ITER, "    dxdtsum = k1 + 2*k2\n", "    dxdtsum = k1\n    dxdtsum += 2*k2\n",
  ["C06:stages"], ["state_modified_direct"], "KF-C06-2 restored: the stage sum is accumulated into the first stage, which is the caller's state when f returns its argument")
M("rk4-weights", ITER, "    return updateX(X_old, dxdtsum/6, dt), dt", "    return updateX(X_old, (dxdtsum + 1e-3*(k2 - k3))/6, dt), dt",
  ["C06:order"], ["order_below_nominal"], "RK4 combination perturbed by 1e-3 (k2-k3)")
M("euler-time", ITER, "    dxdt, dt = f(t, X_old, True)\n    return updateX(X_old, dxdt, dt), dt", "    dxdt, dt = f(t, X_old, True)\n    dxdt = 0.5*(dxdt + f(t, X_old))\n    return updateX(X_old, dxdt, dt), dt",
  ["C06:stages"], ["stage_times_direct", "stage_times_solve"], "Euler evaluates the derivative twice per step")

# ------------------------------------------------------------------ nucleation (C14)
NR, NUC, KE, KB = "kawin/precipitation/NucleationRate.py", "kawin/precipitation/parameters/Nucleation.py", "kawin/precipitation/KWNEuler.py", "kawin/precipitation/KWNBase.py"
M("nuc-rmin-clamp", NR, "        RcritProposal = 2*precipitate.shapeFactor.description.thermoFactor(aspectRatio) * precipitate.gamma / volumeDrivingForce[indices]\n        Rcrit[indices] = np.amax([RcritProposal, Rmin[indices]], axis=0)",
  "        RcritProposal = 2*precipitate.shapeFactor.description.thermoFactor(aspectRatio) * precipitate.gamma / volumeDrivingForce[indices]\n        Rcrit[indices] = np.amax([RcritProposal, 0.9*Rmin[indices]], axis=0)",
  ["C14:cnt"], ["rcrit_below_min"], "bulk critical radius clamped at 0.9 Rmin")
M("nuc-rcrit-factor", NR, "RcritProposal = 2*precipitate.shapeFactor.description.thermoFactor(aspectRatio) * precipitate.gamma / volumeDrivingForce[indices]", "RcritProposal = 2.000001*precipitate.shapeFactor.description.thermoFactor(aspectRatio) * precipitate.gamma / volumeDrivingForce[indices]",
  ["C14:cnt"], ["rcrit_not_spherical"], "bulk critical radius 2.000001 gamma/dG")
M("nuc-negative-dg", NR, "    indices = volumeDrivingForce > 0\n", "    indices = volumeDrivingForce != 0\n",
  ["C14:cnt", "C14:trajectory"], ["rate_nonzero_without_driving_force", "rate_without_driving_force", "negative"], "barrier evaluated for negative driving forces too")
M("nuc-incubation-clip", NR, "    incubationTime = np.amin([np.exp(-tau[indices] / time), np.ones(tau[indices].shape)], axis=0)", "    incubationTime = np.exp(-tau[indices] / time) * (1 + 1e-6)",
  ["C14:cnt"], ["incubation_factor_range"], "incubation factor may exceed 1 by 1e-6")
M("nuc-incubation-direction", NR, "    incubationTime = np.amin([np.exp(-tau[indices] / time), np.ones(tau[indices].shape)], axis=0)", "    incubationTime = np.amin([np.exp(-time / np.maximum(tau[indices], 1e-300)), np.ones(tau[indices].shape)], axis=0)",
  ["C14:cnt"], ["incubation_not_monotone", "incubation_factor_range"], "incubation factor exp(-t/tau) falls with time")
M("nuc-scalar-path", NR, "    return np.squeeze(Rcrit), np.squeeze(Gcrit)", "    return np.squeeze(Rcrit), np.squeeze(Gcrit) * (1 + 1e-9 * (Gcrit.size == 1))",
  ["C14:cnt"], ["scalar_vs_array"], "scalar calls return a barrier larger by 1e-9")
M("nuc-gb-volume", NUC, "        return (2*np.pi/3) * (2 - 3*gbk + gbk**3)", "        return (2*np.pi/3) * (2 - 3*gbk + gbk**3) * (1 + 1e-6*gbk)",
  ["C14:geometry+cnt"], ["clemm_fisher_identity", "gcrit_not_scaled_sphere", "rcrit_not_spherical"], "grain-boundary volume factor scaled by 1+1e-6 k")
M("nuc-gb-k0", NUC, "        return 4*np.pi * (1 - gbk)", "        return 4*np.pi * (1 - gbk) * (1 + 1e-6) - 8e-6*np.pi*gbk*(1 - gbk**2)/ (2*gbk + 1e-300) * 0",
  ["C14:geometry"], ["not_spherical_at_k0", "clemm_fisher_identity"], "grain-boundary area factor scaled by 1+1e-6")
M("nuc-edge-sign", NUC, "        return 3*beta * (1 - gbk**2) - gbk*np.sqrt(3 - 4*gbk**2)", "        return gbk*np.sqrt(3 - 4*gbk**2) - 3*beta * (1 - gbk**2)",
  ["C14:geometry"], ["factor_negative", "clemm_fisher_identity"], "grain-edge removed-boundary factor with the wrong sign")
M("nuc-corner-nan", NUC, "        return (4/3)*np.sqrt(3/2 - 2*gbk**2) - 2*gbk/3", "        return (4/3)*np.sqrt(3/2 - 2.2*gbk**2) - 2*gbk/3",
  ["C14:geometry"], ["factor_not_finite", "clemm_fisher_identity"], "grain-corner K(k) leaves its domain before k reaches its limit")
M("nuc-gb-volume-monotone", NUC, "        return (2*np.pi/3) * (2 - 3*gbk + gbk**3)", "        return (2*np.pi/3) * (2 - 3*gbk + gbk**3) + 0.05*np.sin(20*gbk)**2",
  ["C14:geometry"], ["volume_factor_increases", "clemm_fisher_identity"], "grain-boundary volume factor with a ripple")
M("sites-sign", KE, "            nucleationSites += self.matrixParameters.nucleationSites.bulkN0 - bulkPrec", "            nucleationSites += self.matrixParameters.nucleationSites.bulkN0 + bulkPrec",
  ["C14:sites"], ["sites_increase_with_occupation"], "occupied bulk sites are added instead of subtracted")

# ------------------------------------------------------------------ shape factors (C15)
SF = "kawin/precipitation/parameters/ShapeFactors.py"
M("shape-needle-radii", SF, "        return np.cbrt((3 / (4 * np.pi))) * np.array([scale, scale, scale * ar]).T", "        return np.cbrt((3 / (4 * np.pi))) * np.array([scale, scale, scale * ar * (1 + 1e-8)]).T",
  ["C15:geometry"], ["radii_volume", "radii_aspect"], "needle long axis longer by 1e-8")
M("shape-plate-eq", SF, "        return np.cbrt(ar**2)", "        return np.cbrt(ar**2) * (1 + 1e-10)",
  ["C15:geometry"], ["eq_radius_factor"], "plate equivalent-radius factor off by 1e-10")
M("shape-needle-thermo", SF, "        return (1 / (2 * ar**(2/3))) * (1 + ar / ecc * np.arcsin(ecc))", "        return (1 / (2 * ar**(2/3))) * (1 + ar / ecc * np.arcsin(ecc)) * (1 + 1e-7)",
  ["C15:geometry"], ["thermo_factor_area"], "needle area factor off by 1e-7")
M("shape-plate-kinetic", SF, "        return ecc * np.cbrt(ar) / (np.pi/2 - np.arccos(ecc))", "        return ecc * np.cbrt(ar) / (np.pi/2 - np.arccos(ecc)) * (1 + 1e-7)",
  ["C15:geometry"], ["kinetic_factor_capacitance"], "plate capacitance factor off by 1e-7")
M("shape-needle-kinetic-monotone", SF, "        return 2 * np.cbrt(ar**2) * ecc / (np.log(1 + ecc) - np.log(1 - ecc))", "        return 2 * np.cbrt(ar**2) * ecc / (np.log(1 + ecc) - np.log(1 - ecc)) * (1 - 0.2*np.exp(-(ar - 3)**2))",
  ["C15:geometry"], ["not_monotone", "kinetic_factor_capacitance", "factor_below_one"], "needle kinetic factor with a dip near aspect ratio 3")
M("shape-sphere-factor", SF, "        Kinetic factor for a sphere (returns 1)\n        '''\n        return np.ones(ar.shape)", "        Kinetic factor for a sphere (returns 1)\n        '''\n        return np.ones(ar.shape) * ar**1e-9",
  ["C15:geometry"], ["sphere_factor"], "sphere kinetic factor depends (1e-9) on the aspect ratio passed")
M("shape-min-not-one", SF, "        self.eqRadiusFactorMin = 1\n        self.kineticFactorMin = 1\n        self.thermoFactorMin = 1", "        self.eqRadiusFactorMin = 1\n        self.kineticFactorMin = 1 + 1e-9\n        self.thermoFactorMin = 1",
  ["C15:at_one"], ["not_one_at_1"], "kinetic factor at aspect ratio 1 is 1+1e-9")
M("shape-int-input", SF, "        ar = np.array(ar, ndmin=1)\n        ar[ar < 1] = 1", "        ar = np.array(ar, ndmin=1)\n        ar = ar + (0.5 if ar.dtype.kind == 'i' and ar.size == 1 else 0) * 1e-9\n        ar[ar < 1] = 1",
  ["C15:at_one"], ["int_vs_float"], "integer scalar aspect ratios are shifted by 5e-10")
M("shape-array-vs-scalar", SF, "        factor[ar > 1] = self._thermoFactor(ar[ar > 1])", "        factor[ar > 1] = self._thermoFactor(ar[ar > 1]) * (1 + 1e-10 * (ar.size > 1))",
  ["C15:at_one"], ["scalar_vs_array"], "array calls of the thermodynamic factor differ from scalar calls by 1e-10")
M("shape-array-shape", SF, "        ar = self._processAspectRatio(ar)\n        return np.squeeze(self._normalRadii(ar))", "        ar = self._processAspectRatio(ar)\n        return np.squeeze(self._normalRadii(ar)).T",
  ["C15:at_one+geometry"], ["array_shape", "radii_shape", "scalar_vs_array"], "normalRadii of an array comes back transposed")
M("shape-rcrit-scalar", SF, "        return RcritSphere * self.thermoFactor(RcritSphere)\n", "        return RcritSphere * self.eqRadiusFactor(RcritSphere)\n",
  ["C15:rcrit"], ["rcrit_scalar"], "constant-aspect-ratio critical radius uses the equivalent-radius factor")
M("shape-rcrit-tol", SF, "        while np.abs(fMid) > self.tol:", "        while np.abs(fMid) > 3*self.tol:",
  ["C15:rcrit"], ["rcrit_not_root"], "bisection stops at three times its tolerance")
M("shape-rcrit-giveup", SF, "            if n == 100:\n                return RcritSphere", "            if n == 6:\n                return RcritSphere",
  ["C15:rcrit"], ["rcrit_not_root"], "bisection gives up after 6 halvings and returns the spherical radius")

# ------------------------------------------------------------------ elasticity (C16)
EF, LEB = "kawin/precipitation/parameters/ElasticFactors.py", "kawin/precipitation/parameters/LebedevNodes.py"
M("el-energy-sign", EF, "        return -0.5 * V * np.sum(stress * strain)", "        return 0.5 * V * np.sum(stress * strain)",
  ["C16:quadratic+sphere"], ["energy_negative", "sphere_closed_form"], "strain energy with the opposite sign")
M("el-energy-offset", EF, "        return self._strainEnergy(stressC-stress0, eigenstrain, V)", "        return self._strainEnergy(stressC-stress0, eigenstrain, V) + 1e-9 * V * np.sum(np.abs(cM4[0,0,0,0] * eigenstrain)) * 1e-3",
  ["C16:quadratic"], ["not_quadratic_in_strain"], "energy gets a term linear in the eigenstrain")
M("el-quick-inverse", EF, "        H = c*d - a*f\n", "        H = c*d - a*f*(1 + 1e-7)\n",
  ["C16:quadratic"], ["inverse_routines_differ"], "one cofactor of the hard-coded 3x3 inverse off by 1e-7")
M("el-nan", EF, "        endTerm = 1 / self._beta(radius[0], radius[1], radius[2], self.midPhiGrid, self.midThetaGrid)**3", "        endTerm = 1 / (self._beta(radius[0], radius[1], radius[2], self.midPhiGrid, self.midThetaGrid) - radius[2])**3",
  ["C16:quadratic"], ["energy_not_finite"], "integrand divides by zero at the pole")
M("el-khachaturyan", EF, "        A1 = 2 * (c[0,0] - c[0,1]) / c[0,0]", "        A1 = 2.000001 * (c[0,0] - c[0,1]) / c[0,0]",
  ["C16:sphere"], ["sphere_closed_form"], "spherical approximation: leading coefficient 2.000001")
M("el-beta-axes", EF, "        return np.sqrt(((a*np.cos(phi))**2 + (b*np.sin(phi))**2)*np.sin(theta)**2 + (c*np.cos(theta))**2)", "        return np.sqrt(((a*np.cos(phi))**2 + (b*np.sin(phi))**2)*np.sin(theta)**2 + (c*np.cos(theta))**2 * (a/b)**0.01)",
  ["C16:orientation+sphere"], ["axis_permutation_midpoint", "dilatational_energy_shape_dependent"], "ellipsoid surface distance treats the axes unequally")
M("el-sijmn", EF, "        S = -0.5 * np.tensordot(c4, D + np.transpose(D, (3,1,2,0)), axes=[[0,1],[2,1]])", "        S = -0.5 * np.tensordot(c4, D + 1.001*np.transpose(D, (3,1,2,0)), axes=[[0,1],[2,1]])",
  ["C16:sphere+orientation"], ["eshelby_tensor_component_midpoint", "sphere_closed_form", "matrix_orientation_midpoint"], "Eshelby tensor symmetrisation weighted 1 : 1.001")
M("el-rot4", EF, "            np.tensordot(rot, tensor, axes=(1,3)), axes=(1,3)), axes=(1,3)), axes=(1,3))", "            np.tensordot(rot, tensor, axes=(1,3)), axes=(1,3)), axes=(1,3)), axes=(0,3))",
  ["C16:conversions+orientation"], ["rank4_rotation_rule", "rotation_not_invertible", "matrix_orientation_midpoint"], "last index of the 4th-rank rotation uses the transposed matrix")
M("el-rot2", EF, "            np.tensordot(rot, tensor, axes=(1,1)), axes=(1,1))", "            np.tensordot(rot, tensor, axes=(1,1)), axes=(0,1))",
  ["C16:conversions"], ["rank2_rotation_rule"], "2nd-rank rotation applies R^T on one side")
M("el-2to4", EF, "        frozenset({1,2}): 3, \n        frozenset({0,2}): 4, ", "        frozenset({1,2}): 4, \n        frozenset({0,2}): 3, ",
  ["C16:conversions"], ["rank_roundtrip", "rank4_symmetry"], "Voigt indices 4 and 5 swapped in 6x6 -> 4th rank")
M("el-vec", EF, "    return np.array([c[0,0], c[1,1], c[2,2], c[1,2], c[0,2], c[0,1]])", "    return np.array([c[0,0], c[1,1], c[2,2], c[1,2], c[0,1], c[0,2]])",
  ["C16:conversions"], ["vector_roundtrip"], "tensor -> vector swaps the last two shear components")
M("el-moduli", EF, "            G = 3*K*E / (9*K - E)", "            G = 3*K*E / (9*K + E)",
  ["C16:conversions"], ["modulus_pair"], "E-K pair converts with the wrong sign")
M("el-iso-rot", EF, "    s[3,3], s[4,4], s[5,5] = 1/G, 1/G, 1/G", "    s[3,3], s[4,4], s[5,5] = 1/G, 1/G, 1/(G*(1 + 1e-6))",
  ["C16:conversions"], ["isotropic_not_invariant", "modulus_pair"], "moduliToC: c66 differs from c44 by 1e-6")
M("leb-weights", LEB, "            w = [node[i][1] for n in range(6)]", "            w = [node[i][1] * 1.01 for n in range(6)]",
  ["C16:lebedev"], ["weights_not_normalised"], "A1 weights 1% too large")
M("leb-negative-weight", LEB, "            w = [node[i][1] for n in range(8)]", "            w = [-node[i][1] for n in range(8)]",
  ["C16:lebedev"], ["weights_not_positive", "weights_not_normalised"], "A3 weights negated")

# ------------------------------------------------------------------ homogenization (C17), strength and grain growth (C18)
HP, STR, GG = "kawin/diffusion/HomogenizationParameters.py", "kawin/precipitation/coupling/Strength.py", "kawin/precipitation/coupling/GrainGrowth.py"
M("hom-wiener-lower", HP, "    avg_mob = 1/np.sum(np.multiply(phaseFracs[:,np.newaxis], 1/(modified_mob)), axis=0)", "    avg_mob = 1/np.sum(np.multiply(phaseFracs[:,np.newaxis]**1.05, 1/(modified_mob)), axis=0)",
  ["C17:bounds"], ["bound_order", "single_phase_value"], "lower Wiener bound weights fractions with exponent 1.05")
M("hom-hs-sign", HP, "    avg_mob = extreme_mob + Ak / (1 - Ak / (3*extreme_mob))", "    avg_mob = extreme_mob - Ak / (1 - Ak / (3*extreme_mob))",
  ["C17:bounds"], ["bound_order", "not_finite_or_negative", "single_phase_value"], "Hashin-Shtrikman correction with the wrong sign")
M("hom-labyrinth", HP, "    avg_mob = np.sum(np.multiply(np.power(phaseFracs[:,np.newaxis], labyrinth_factor), modified_mob), axis=0)", "    avg_mob = np.sum(np.multiply(np.power(phaseFracs[:,np.newaxis], 1/labyrinth_factor), modified_mob), axis=0)",
  ["C17:bounds"], ["labyrinth_above_wiener"], "labyrinth factor applied as 1/n")
M("hom-labyrinth-one", HP, "    labyrinth_factor = kwargs.get('labyrinth_factor', 1)\n", "    labyrinth_factor = kwargs.get('labyrinth_factor', 1) + 1e-6\n",
  ["C17:bounds"], ["labyrinth_factor_one"], "labyrinth factor shifted by 1e-6")
M("hom-inputs", HP, "    modified_mob = np.where(mobility != -1, mobility, np.finfo(np.float64).tiny)\n    avg_mob = np.sum(np.multiply(phaseFracs[:,np.newaxis], modified_mob), axis=0)", "    mobility[mobility == -1] = np.finfo(np.float64).tiny\n    modified_mob = mobility\n    avg_mob = np.sum(np.multiply(phaseFracs[:,np.newaxis], modified_mob), axis=0)",
  ["C17:bounds"], ["inputs_modified"], "upper Wiener bound overwrites undefined entries of the caller's mobility array")
M("hom-order", HP, "    max_mob = np.amax(modified_mob, axis=0)    # (p, e) -> (e,)", "    max_mob = np.where(phaseFracs[0] > 0, np.amax(modified_mob, axis=0), modified_mob[0])",
  ["C17:bounds"], ["phase_order_dependence", "bound_order"], "upper Hashin-Shtrikman takes the first listed phase as matrix when its fraction is zero")
M("str-orowan", STR, "        tauowo[(tauowo < 0) | ~np.isfinite(tauowo)] = 0", "        tauowo[(tauowo < 0)] = 0",
  ["C18:strength"], ["contribution_not_finite", "strength_without_precipitates", "precipitate_strength_invalid"], "Orowan term no longer cleaned of non-finite values (zero spacing)")
M("str-min", STR, "        taumin = np.amin(np.array([tausumweak, tausumstrong, orowan]), axis=0)", "        taumin = np.amin(np.array([tausumweak, tausumstrong*1.0001, orowan]), axis=0)",
  ["C18:strength"], ["not_min_of_branches"], "strong branch enters the minimum 1.0001 times too large")
M("str-total", STR, "        return np.power(np.sum(np.power([sigma0, ssStrength, precStrength], self.totalStrengthExp), axis=0), 1/self.totalStrengthExp)", "        return np.power(np.sum(np.power([sigma0, ssStrength, precStrength], self.totalStrengthExp), axis=0), 1/self.totalStrengthExp) - 1e-3*np.minimum(ssStrength, precStrength)",
  ["C18:strength"], ["total_below_part", "total_not_monotone"], "total strength reduced by 0.1 % of the smaller part")
M("str-total-nan", STR, "        sigma0 = self.sigma0*np.ones(len(ssStrength))\n", "        sigma0 = self.sigma0*np.ones(len(ssStrength)) / (np.asarray(precStrength) > 0)\n",
  ["C18:strength"], ["total_strength_invalid"], "total strength infinite without precipitate strength")
M("str-inputs", STR, "        r0Strong = Ls\n", "        Ls[Ls == 0] = np.finfo(float).tiny\n        r0Strong = Ls\n",
  ["C18:strength"], ["inputs_modified"], "getStrengthContributions replaces zero spacings in the caller's array")
M("str-mixed-limit", STR, "        return (1.3416*np.cos(self.theta)**2 + 4.1127*np.sin(self.theta)**2) / Ls * np.sqrt(self.G**3 * self.eps[phase]**3 * r**3 * self.b / self.T(self.theta, r0))", "        return (1.3416*np.cos(self.theta)**2 + 4.15*np.sin(self.theta)**2) / Ls * np.sqrt(self.G**3 * self.eps[phase]**3 * r**3 * self.b / self.T(self.theta, r0))",
  ["C18:mixed_limits"], ["mixed_limit_mismatch"], "edge coefficient of the mixed coherency formula 4.15 instead of 4.1127")
M("str-history", STR, "        self.solidStrength = np.append(self.solidStrength, [self.ssStrength(model, model.pData.n)], axis=0)", "        if model.pData.n % 7 != 0:\n            self.solidStrength = np.append(self.solidStrength, [self.ssStrength(model, model.pData.n)], axis=0)",
  ["C18:coupled"], ["strength_history_misaligned"], "solid-solution history skips every 7th step")
M("gg-negative", GG, "        cG[growIndices] = lower[growIndices]", "        cG[growIndices] = 40 * lower[growIndices]",
  ["C18:graingrowth"], ["grain_psd_invalid", "drag_reverses_or_accelerates", "grain_volume_not_conserved", "mean_grain_size_decreases"], "pinned growth rates 40x too large")

# ------------------------------------------------------------------ precipitation runs (C01, C02, C03)
PP = "kawin/precipitation/PrecipitationParameters.py"
M("kwn-misaligned", PP, "        for name in self.ATTRIBUTES:\n            setattr(self, name, np.concatenate([getattr(self, name), getattr(newData, name)], axis=0))", "        for name in self.ATTRIBUTES:\n            if name == 'Gcrit' and len(self.time) % 11 == 10:\n                continue\n            setattr(self, name, np.concatenate([getattr(self, name), getattr(newData, name)], axis=0))",
  ["C03:wellformed"], ["misaligned_histories"], "one history skips every 11th append")
M("kwn-volfrac-clip", KE, "            Y.volFrac[0,p] = np.amin([volRatio * precParams.nucleation.volumeFactor * self.PBM[p].ThirdMomentFromN(x[p]), 1])", "            Y.volFrac[0,p] = 1.5 * volRatio * precParams.nucleation.volumeFactor * self.PBM[p].ThirdMomentFromN(x[p])",
  ["C03:wellformed", "C02:toy_binary"], ["volfrac_range", "total_fraction_above_one", "volfrac_not_third_moment"], "volume fraction 1.5x and unclipped")
M("kwn-composition-floor", KE, "            Y.composition[0,Y.composition[0] < 0] = self.constraints.minComposition", "            Y.composition[0] = Y.composition[0] - (np.sum(Y.volFrac[0]) > 0.01) * 1.0",
  ["C03:wellformed"], ["composition_range"], "matrix composition drops below zero once 1 % has precipitated")
M("kwn-psd-negative", KE, "            x[p][x[p] < 0] = 0", "            x[p][x[p] < 0] = 0\n            if len(x[p]) > 12:\n                x[p][11] -= 2.0",
  ["C03:wellformed"], ["psd_negative"], "two particles removed from class 11 at every evaluation")
M("kwn-ravg-sign", KE, "            Y.Ravg[0,p] = self.PBM[p].MomentFromN(x[p], 1) / Y.precipitateDensity[0,p]", "            Y.Ravg[0,p] = -self.PBM[p].MomentFromN(x[p], 1) / Y.precipitateDensity[0,p]",
  ["C03:wellformed", "C02:toy_binary"], ["negative_Ravg", "radius_not_moment_ratio"], "mean radius with the wrong sign")
M("kwn-nan", KE, "            Y.ARavg[0,p] = self.PBM[p].WeightedMomentFromN(x[p], 0, precParams.shapeFactor.aspectRatio(self.PBM[p].PSDsize)) / Y.precipitateDensity[0,p]", "            Y.ARavg[0,p] = self.PBM[p].WeightedMomentFromN(x[p], 0, precParams.shapeFactor.aspectRatio(self.PBM[p].PSDsize)) / (Y.precipitateDensity[0,p] - Y.precipitateDensity[0,p])",
  ["C03:wellformed"], ["non_finite_history"], "mean aspect ratio divided by zero")
M("kwn-density", KE, "            Y.precipitateDensity[0,p] = self.PBM[p].ZeroMomentFromN(x[p])", "            Y.precipitateDensity[0,p] = self.PBM[p].ZeroMomentFromN(x[p]) * (1 + 1e-6)",
  ["C02:toy_binary"], ["density_not_zeroth_moment"], "number density 1e-6 too high")
M("kwn-mass-balance", KE, "            Y.composition[0] = (self.pData.composition[0] - np.sum(Y.fconc[0], axis=0)) / (1 - np.sum(Y.volFrac[0]))", "            Y.composition[0] = (self.pData.composition[0] - np.sum(Y.fconc[0], axis=0)) / (1 - 0.999*np.sum(Y.volFrac[0]))",
  ["C01:toy_binary+toy_multi"], ["solute_not_conserved"], "matrix fraction 1 - 0.999 fv in the mass balance")

# ------------------------------------------------------------------ diffusion (C04, C13), stopping conditions (C19), files (C20), orders (C11)
DIFF, DP, SP, HOM, SC = "kawin/diffusion/Diffusion.py", "kawin/diffusion/DiffusionParameters.py", "kawin/diffusion/SinglePhase.py", "kawin/diffusion/Homogenization.py", "kawin/precipitation/StoppingConditions.py"
M("diff-clip", DIFF, "        self.x = np.clip(self.x, self.constraints.minComposition, 1-self.constraints.minComposition)\n        self.record(self.t)", "        self.record(self.t)",
  ["C04"], ["composition_out_of_range"], "documented clip of the profile removed")
M("diff-bc-initial", DP, "                x[i,0] = self.leftBC[e]\n", "                x[i,0] = 0.999*self.leftBC[e]\n",
  ["C04"], ["fixed_composition_value", "fixed_composition_drifts"], "left fixed composition applied at 99.9 %")
M("diff-T-stage", SP, "        T = self.temperatureParameters(self.z, t)\n        d = np.zeros(self.N)", "        T = self.temperatureParameters(self.z, self.t)\n        d = np.zeros(self.N)",
  ["C13:diffusion_T"], ["backend_temperature"], "single-phase fluxes use the temperature at the start of the step for every stage")
M("diff-T-homog", HOM, "        T = self.temperatureParameters(self.z, t)\n\n        avg_mob", "        T = self.temperatureParameters(self.z[::-1], t)\n\n        avg_mob",
  ["C13:diffusion_T"], ["backend_temperature"], "homogenization model evaluates the temperature field on the mirrored mesh")
M("diff-extra-call", SP, "                inter_diff = self.therm.getInterdiffusivity(x[:,i], T[i], phase=self.phases[0])\n", "                inter_diff = self.therm.getInterdiffusivity(x[:,i], T[i], phase=self.phases[0])\n                if i == 0:\n                    self.therm.getInterdiffusivity(x[:,i], T[i], phase=self.phases[0])\n",
  ["C13:diffusion_T"], ["backend_call_count"], "first node evaluated twice")
M("kwn-T-record", KB, "            self._currY.temperature = np.array([self.temperatureParameters(t)])", "            self._currY.temperature = np.array([self.temperatureParameters(self.pData.time[self.pData.n])])",
  ["C13:follow"], ["temperature_not_schedule"], "recorded temperature is the schedule at the previous time stamp")
M("stop-interp", SC, "                    self._satisfiedTime = (currTime - prevTime) * (self._value - prevVal) / (currVal - prevVal) + prevTime", "                    self._satisfiedTime = 0.5*(currTime + prevTime)",
  ["C19:stop"], ["time_not_interpolated"], "satisfied time is the midpoint of the crossing step")
M("stop-relatch", SC, "        if not self._isSatisfied:\n            self._isSatisfied = self._testCondition(model)\n\n            if self._isSatisfied:", "        if True:\n            self._isSatisfied = self._testCondition(model)\n\n            if self._isSatisfied:",
  ["C19:stop"], ["unlatched", "latched_time_changed", "not_latched"], "conditions are re-evaluated every step (no latching)")
M("stop-strict", SC, "            return self._poll(model, model.pData.n) > self._value", "            return self._poll(model, model.pData.n) > self._value or model.pData.n == 3",
  ["C19:stop"], ["satisfied_without_crossing", "stopped_without_condition"], "greater-than conditions report satisfied at step 3")
M("stop-time-default", SC, "        if not self._isSatisfied:\n            self._isSatisfied = self._testCondition(model)\n", "        if not self._isSatisfied:\n            if model.pData.n > 5:\n                self._satisfiedTime = 0.0\n            self._isSatisfied = self._testCondition(model)\n",
  ["C19:stop"], ["time_without_satisfaction"], "unsatisfied conditions report time 0 after five steps")
M("save-psd", KE, "            data['PBM_PSD_' + self.phases[p]] = self.PBM[p].PSD", "            data['PBM_PSD_' + self.phases[p]] = np.where(self.PBM[p].PSD < 2, 0, self.PBM[p].PSD)",
  ["C20:kwn_saveload"], ["distribution_not_reproduced"], "classes holding fewer than two particles are not saved")
M("save-diffusion-state", DIFF, "            'finalTime': self.t,\n", "            'finalTime': float(np.float32(self.t)),\n",
  ["C20:diffusion_saveload"], ["state_not_reproduced"], "current time saved in single precision")
M("save-psd-record", PBM, "                np.savez_compressed(filename, time = self._recordedTime, bins = self._recordedBins, PSD = self._recordedPSD)", "                np.savez_compressed(filename, time = self._recordedTime, bins = self._recordedBins, PSD = self._recordedPSD.astype(np.float32))",
  ["C20:kwn_saveload"], ["psd_record_not_reproduced"], "recorded distributions saved in single precision")

# ------------------------------------------------------------------ thermodynamic queries (C09, C10, C11, C12), surrogates (C20)
TH, BT, SUR, MOB = "kawin/thermo/Thermodynamics.py", "kawin/thermo/BinTherm.py", "kawin/thermo/Surrogate.py", "kawin/thermo/Mobility.py"
M("th-ic-offset", BT, "        gExtra = np.atleast_1d(gExtra) + self.gOffset\n\n        #Compute equilibrium at guess composition", "        gExtra = np.atleast_1d(gExtra) + self.gOffset + 40\n\n        #Compute equilibrium at guess composition",
  ["C12:binary_queries"], ["driving_force_at_interface"], "interfacial composition computed for a Gibbs-Thomson energy 40 J/mol too high")
M("th-ic-sentinel", BT, "                    xPrecipArray[gIndex] = cs_precip.X[c_idx]\n", "                    if gIndex % 3 != 2:\n                        xPrecipArray[gIndex] = cs_precip.X[c_idx]\n",
  ["C12:binary_queries"], ["sentinel_inconsistent"], "every third precipitate composition left at the sentinel")
M("th-approx-scale", TH, "        dg = np.sum(xP * result.chemical_potentials) - np.sum(xP * chemical_potentials)", "        dg = 1.02 * (np.sum(xP * result.chemical_potentials) - np.sum(xP * chemical_potentials))",
  ["C12:binary_queries"], ["methods_disagree"], "approximate driving force 2 % too large")
M("th-tangent-sign", TH, "        dg = prec_eq_results.x[0]\n", "        dg = abs(prec_eq_results.x[0])\n",
  ["C12:binary_queries"], ["sign_at_solvus", "driving_force_not_increasing", "methods_disagree"], "tangent driving force never negative")
M("th-curvature-scale", TH, "        dg = np.matmul(xD, np.matmul(dMudxParent, xBar.T))", "        dg = 1.3 * np.matmul(xD, np.matmul(dMudxParent, xBar.T))",
  ["C12:binary_queries"], ["curvature_limit"], "curvature driving force 30 % too large")
M("th-diff-history", TH, "        self._diffusivity_cache[phase] = None if removeCache else comp_sets\n        return np.squeeze(Dnkj)", "        self._diffusivity_cache[phase] = None if removeCache else comp_sets\n        self._nq = getattr(self, '_nq', 0) + 1\n        return np.squeeze(Dnkj) * (1 + 1e-4 * (self._nq % 2))",
  ["C09:query_sequences"], ["diffusivity_history_dependent"], "every other interdiffusivity query 1e-4 larger")
M("th-diff-unsort", TH, "            Dnkj = Dnkj[unsortIndices,:]\n            Dnkj = Dnkj[:,unsortIndices]", "            Dnkj = Dnkj[unsortIndices,:]",
  ["C11:element_order_queries+element_order_diffusion_run", "C10"], ["interdiffusivity_not_permuted", "diffusion_profile_not_permuted", "interdiffusivity_eigenvalues"], "interdiffusivity columns left in alphabetical order")
M("th-tracer-negative", TH, "        Dtrace = Dtrace[unsortIndices]\n", "        Dtrace = Dtrace[unsortIndices]\n        Dtrace[0] = -Dtrace[0]\n",
  ["C10"], ["tracer_not_positive", "tracer_not_RT_mobility"], "reference-element tracer diffusivity negated")
M("sur-json", SUR, "        if isinstance(data, np.ndarray):\n            return data.tolist()", "        if isinstance(data, np.ndarray):\n            return np.round(data, 10).tolist()",
  ["C20:surrogate+surrogate_multi"], ["json_roundtrip_differs"], "arrays rounded to 10 decimals when written to JSON")
M("sur-smoothing", SUR, "        self.rbfModel = RBFInterpolator((x - self.xoffset[np.newaxis,:]) / self.scale[np.newaxis,:], y, *args, **kwargs)", "        self.rbfModel = RBFInterpolator((x - self.xoffset[np.newaxis,:]) / self.scale[np.newaxis,:], y, *args, smoothing=1e-2, **kwargs)",
  ["C20:surrogate+surrogate_multi"], ["training_data_not_reproduced"], "interpolant built with smoothing 1e-2 (no longer interpolates its data)")
M("sur-growth", SUR, "            curvature = self.curvatureFactor(x, T, precPhase)\n            return curvature.beta", "            curvature = self.curvatureFactor(x, T, precPhase)\n            return curvature.beta * (1 + 1e-9)",
  ["C20:surrogate_multi"], ["trained_growth_inconsistent"], "trained impingement factor 1e-9 larger than the curvature beta")

# ------------------------------------------------------------------ second pass: kinds not yet provoked
MT = "kawin/thermo/MultiTherm.py"
M("pbm-update-nan", PBM, "        self.PSD = newN\n        self.PSD[self.PSD < 1] = 0", "        self.PSD = newN\n        self.PSD[self.PSD < 1] = np.nan",
  ["C03:wellformed"], ["psd_not_finite", "non_finite_history"], "classes below one particle become NaN")
M("pbm-limit-above-c03", PBM, "indAbove = self._netFlux[1:]*dt > psd\n        self._netFlux[1:][indAbove] = psd[indAbove] / dt", "indAbove = self._netFlux[1:]*dt > 3*psd\n        self._netFlux[1:][indAbove] = 3*psd[indAbove] / dt",
  ["C03:wellformed"], ["psd_negative"], "growth faces limited to three times the class content (run level)")
M("kwn-total-fraction", KE, "            Y.volFrac[0,p] = np.amin([volRatio * precParams.nucleation.volumeFactor * self.PBM[p].ThirdMomentFromN(x[p]), 1])", "            Y.volFrac[0,p] = np.amin([0.6 + volRatio * precParams.nucleation.volumeFactor * self.PBM[p].ThirdMomentFromN(x[p]), 1])",
  ["C03:wellformed"], ["total_fraction_above_one"], "every populated phase reports at least 60 % volume fraction")
M("pbm-extend-ones", PBM, "        self.PSD = np.append(self.PSD, np.zeros(bins))", "        self.PSD = np.append(self.PSD, 2*np.ones(bins))",
  ["C08:history"], ["extend_new_not_empty"], "appended classes hold two particles each")
M("pbm-load-count", PBM, "        self.PSD = self.PSD.astype('float')", "        self.PSD = 2 * self.PSD.astype('float')",
  ["C08:history"], ["load_count"], "LoadDistribution doubles the counts")
M("pbm-moment-side-effect", PBM, "        return np.sum(N * self.PSDsize**order)", "        self.PSD = N\n        return np.sum(N * self.PSDsize**order)",
  ["C08:moments"], ["moment_side_effect"], "MomentFromN stores the supplied distribution")
M("pbm-moment-stored2", PBM, "        return self.MomentFromN(self.PSD, order)", "        return self.MomentFromN(self.PSD, order) * (1 + 1e-6)",
  ["C08:moments"], ["moment_Moment"], "Moment() off by 1e-6")
M("pbm-remesh-create", PBM, "            if newV != 0:\n                self.PSD *= oldV / newV\n            else:\n                self.PSD = np.zeros(self.bins)", "            if newV != 0:\n                self.PSD *= oldV / newV\n            else:\n                self.PSD = np.ones(self.bins)",
  ["C08:history"], ["remesh_created_particles", "remesh_volume"], "re-meshing an empty distribution creates one particle per class")
M("pbm-corrected-sum", PBM, "        dXdt = (self._netFlux[:-1] - self._netFlux[1:])\n\n        #Find size class for nucleated particles\n        nRad = np.argmax(self.PSDbounds > nucRadius) - 1\n        #A radius below the smallest size class goes to the first class (index -1 would wrap around to the largest class)\n        if nucRadius < self.PSDbounds[0]:\n            nRad = 0\n        dXdt[nRad] += nucRate\n\n        return dXdt\n    \n    def UpdatePBMEuler",
  "        dXdt = (self._netFlux[:-1] - self._netFlux[1:])\n        dXdt[-1] += 1e-6 * abs(self._netFlux[-2])\n\n        nRad = np.argmax(self.PSDbounds > nucRadius) - 1\n        if nucRadius < self.PSDbounds[0]:\n            nRad = 0\n        dXdt[nRad] += nucRate\n\n        return dXdt\n    \n    def UpdatePBMEuler",
  ["C07:limited"], ["corrected_sum"], "corrected derivative: last class gains 1e-6 of the flux through its lower face")
M("pbm-flux-without-source", PBM, "        self._netFlux[1:] += flux[1:] * psd * fluxSign[1:] / dR\n", "        self._netFlux[1:] += flux[1:] * psd * fluxSign[1:] / dR\n        self._netFlux[0] += 1e-3 * abs(flux[0]) * psd[0] / dR[0]\n",
  ["C07:limited+transport"], ["flux_without_source", "upwind_mismatch"], "bottom face carries an inward flux that no class feeds")
M("hash-repeat", DP, "        return hash(tuple((np.concatenate((x, [T]))*self.hash_sensitivity).astype(np.int64)))", "        self._nq = getattr(self, '_nq', 0) + 1\n        return hash(tuple((np.concatenate((x, [T, self._nq // 4]))*self.hash_sensitivity).astype(np.int64)))",
  ["C09:hashtable"], ["exact_repeat_missed"], "hash key changes every fourth call")
M("th-ic-monotone", BT, "                    xMatrixArray[gIndex] = cs_matrix.X[c_idx]\n", "                    xMatrixArray[gIndex] = cs_matrix.X[c_idx] * (1 - 0.02 * (gIndex % 2))\n",
  ["C12:binary_queries"], ["interfacial_composition_not_monotone", "driving_force_at_interface"], "every other interfacial composition 2 % low")
M("th-ic-sentinel-gap", BT, "                    c_idx = 0 if self.reverse else 1\n                    xMatrixArray[gIndex] = cs_matrix.X[c_idx]\n                    xPrecipArray[gIndex] = cs_precip.X[c_idx]\n", "                    c_idx = 0 if self.reverse else 1\n                    if gIndex != 1:\n                        xMatrixArray[gIndex] = cs_matrix.X[c_idx]\n                        xPrecipArray[gIndex] = cs_precip.X[c_idx]\n",
  ["C12:binary_queries"], ["sentinel_not_monotone"], "second Gibbs-Thomson entry always reported unstable")
M("th-ic-batch", BT, "        return np.squeeze(caArray), np.squeeze(cbArray)\n\n    def _interfacialCompositionFromEq", "        return np.squeeze(caArray) * (1 + 1e-3 * (np.size(caArray) > 1)), np.squeeze(cbArray)\n\n    def _interfacialCompositionFromEq",
  ["C09:query_sequences"], ["interfacial_composition_batch_dependent"], "array calls of the interfacial composition 1e-3 higher than scalar calls")
M("mt-curvature-unsort", MT, "                                                             c_eq_alpha=xM[unsortIndices], ", "                                                             c_eq_alpha=xM, ",
  ["C11:element_order_queries", "C09:query_sequences"], ["curvature_not_permuted", "tieline_history_dependent", "growth_history_dependent"], "equilibrium matrix composition of the curvature factors left in alphabetical order")
M("mob-unsort", DP, "            chemical_potentials = np.squeeze(wks.eq.MU)[unsortIndices]", "            chemical_potentials = np.squeeze(wks.eq.MU)",
  ["C11:element_order_mobility"], ["chemical_potentials_not_permuted"], "chemical potentials of computeMobility left in alphabetical order")
M("mob-unsort2", DP, "                mob[p,:] = mobility_from_composition_set(cs, therm.mobCallables[phases[p]], therm.mobility_correction)[unsortIndices]", "                mob[p,:] = mobility_from_composition_set(cs, therm.mobCallables[phases[p]], therm.mobility_correction)",
  ["C11:element_order_mobility", "C10"], ["mobility_not_permuted", "homogenized_mobility_not_permuted", "tracer_not_RT_mobility"], "mobilities of computeMobility left in alphabetical order")
M("sites-clip", KE, "        return np.amax([nucleationSites, 0])", "        return nucleationSites",
  ["C14:sites"], ["sites_negative_or_nan"], "available sites no longer floored at zero")
M("nuc-rate-kept", KB, "                Y.impingement[0,p] = 0\n                Y.nucRate[0,p] = 0\n                Y.Rnuc[0,p] = 0\n                continue\n\n            # Critical Gibbs", "                Y.impingement[0,p] = 0\n                Y.Rnuc[0,p] = 0\n                continue\n\n            # Critical Gibbs",
  ["C14:trajectory"], ["rate_without_driving_force"], "nucleation rate of the previous step kept while the driving force is negative")
M("el-size-exponent", EF, "        endTerm = 1 / self._beta(radius[0], radius[1], radius[2], self.midPhiGrid, self.midThetaGrid)**3", "        endTerm = 1 / self._beta(radius[0], radius[1], radius[2], self.midPhiGrid, self.midThetaGrid)**3.02",
  ["C16:quadratic"], ["not_cubic_in_size"], "integrand with beta^3.02")
M("gg-sign", GG, "        return self.alpha * self.M * self.gbe * (1 / self.Rcr(x) - 1 / self.pbm.PSDbounds)", "        return -self.alpha * self.M * self.gbe * (1 / self.Rcr(x) - 1 / self.pbm.PSDbounds)",
  ["C18:graingrowth"], ["mean_grain_size_decreases"], "grain growth with the opposite sign")

# ------------------------------------------------------------------ phase order (C11 phase_order clause)
M("order-dtvol-last", PP, "                if dV[p] != 0:\n                    dtVol[p] = self.maxVolumeChange / (2 * np.abs(dV[p]))", "                if dV[-1] != 0:\n                    dtVol[p] = self.maxVolumeChange / (2 * np.abs(dV[-1]))",
  ["C11:phase_order"], ["phase_order_changes_time_grid", "phase_order_changes_history"], "volume step limit taken from the last listed phase only (the defect fixed as KF-C11-1)")
M("order-growth-vm0", KE, "self.PSDXbeta[p][:,0] / self.precipitateParameters[p].volume.Vm - self.PSDXalpha[p][:,0])", "self.PSDXbeta[p][:,0] / self.precipitateParameters[0].volume.Vm - self.PSDXalpha[p][:,0])",
  ["C11:phase_order"], ["phase_order_changes_history", "phase_order_changes_time_grid"], "binary growth rate of every phase uses the molar volume of the first listed phase")
M("order-volfrac-index", KE, "            Y.volFrac[0,p] = np.amin([volRatio * precParams.nucleation.volumeFactor * self.PBM[p].ThirdMomentFromN(x[p]), 1])", "            Y.volFrac[0,p] = np.amin([volRatio * (1 + 1e-6*p) * precParams.nucleation.volumeFactor * self.PBM[p].ThirdMomentFromN(x[p]), 1])",
  ["C11:phase_order"], ["phase_order_changes_history"], "volume fraction of the phase listed at position p scaled by 1+1e-6 p")
M("order-multi-vm0", KE, "        chemDG = (dGs[p] + strainEnergy) * precParams.volume.Vm\n", "        chemDG = (dGs[p] + strainEnergy) * self.precipitateParameters[0].volume.Vm\n",
  ["C11:phase_order"], ["phase_order_changes_history", "phase_order_changes_time_grid"], "multicomponent growth converts the driving force with the molar volume of the first listed phase")
M("gg-number-gain", GG, "        self.pbm.UpdatePBMEuler(time, x[0])\n        self.pbm.adjustSizeClassesEuler(True)", "        self.pbm.UpdatePBMEuler(time, x[0])\n        self.pbm.PSD[self.pbm.PSD > 0] *= 1 + 1e-6\n        self.pbm.adjustSizeClassesEuler(True)",
  ["C18:graingrowth"], ["mean_grain_size_decreases"], "every populated class gains 1e-6 of its grains per step before the renormalisation (number of grains rises, mean size falls)")
M("gg-rcr-mean", GG, "        return self.pbm.SecondMomentFromN(x) / self.pbm.FirstMomentFromN(x)", "        return self.pbm.FirstMomentFromN(x) / self.pbm.ZeroMomentFromN(x)",
  ["C18:graingrowth"], ["growth_law_not_volume_conserving", "mean_grain_size_decreases"], "critical radius taken as the number-mean radius (the growth law no longer conserves volume)")
M("mob-correction-tracer", MOB, "    return R * T * mobility_from_composition_set(composition_set, mobility_callables, mobility_correction, parameters)", "    return R * T * mobility_from_composition_set(composition_set, mobility_callables, None, parameters)",
  ["C10"], ["mobility_correction_not_applied", "tracer_not_RT_mobility", "darken_relation"], "tracer diffusivities ignore the mobility correction factors")
M("el-setshape-params", EF, "        self.description = newDescription\n        self.description.params = self.params", "        self.description = newDescription\n        if isinstance(shape, str):\n            self.description.params = self.params",
  ["C16:quadratic"], ["entry_point_matters", "energy_not_finite"], "a description object passed to setShape (also by the typed setters) is not connected to the material parameters")
M("stop-ge", SC, "            return self._poll(model, model.pData.n) > self._value", "            return self._poll(model, model.pData.n) >= self._value",
  ["C19:stop"], ["stopped_without_condition", "satisfied_without_crossing", "did_not_stop"], "greater-than conditions also accept equality (threshold exactly on a recorded value)")
M("feh-ref-term", "kawin/thermo/FreeEnergyHessian.py", "                dmudx[B, :] -= ddx[i0 + A, :]", "                dmudx[B, :] -= 0.99 * ddx[i0 + A, :]",
  ["C10"], ["curvature_vs_finite_difference", "curvature_not_symmetric", "darken_relation"], "reference-element term of the chemical-potential derivative matrix scaled by 0.99")

# ------------------------------------------------------------------ kinds that no mutant or seeded change had ever fired (listing of 2026-10-03)
M("kwn-clamp-zero", KE, "            Y.composition[0,Y.composition[0] < 0] = self.constraints.minComposition", "            Y.composition[0,Y.composition[0] < 0] = 0",
  ["C01:clamp+toy_binary"], ["clamp_value"], "a negative balance is clamped to 0 instead of the configured minimum composition ")
M("kwn-double-nucleation", KE, "            dXdt[p] = self.PBM[p].correctdXdtEuler(dt, growth[p], Y.nucRate[0,p], Y.Rnuc[0,p], x[p])", "            dXdt[p] = self.PBM[p].correctdXdtEuler(dt, growth[p], 1.5*Y.nucRate[0,p], Y.Rnuc[0,p], x[p])",
  ["C02:toy_binary"], ["density_grows_beyond_nucleation", "density_grows_beyond_nucleation_reported"], "population balance fed with 1.5 times the recorded nucleation rate")
M("pbm-record-stale", PBM, "            self._recordedPSD[-1][:self.PSD.shape[0]] = self.PSD\n", "            self._recordedPSD[-1][:self.PSD.shape[0]] = 0.999 * self.PSD\n",
  ["C02:toy_binary"], ["psd_record_density", "psd_record_volume"], "recorded distributions scaled by 0.999")
M("pbm-record-grid", PBM, "            self._recordedBins[-1][:self.PSDbounds.shape[0]] = self.PSDbounds\n", "            self._recordedBins[-1][:self.PSDbounds.shape[0]] = self.PSDbounds * (1 + 1e-9)\n",
  ["C02:toy_binary"], ["psd_record_grid"], "recorded class boundaries off by 1e-9 relative")
M("mob-frame", MOB, "                        mobMatrix[a, b] = (1 - U[a]) * mob[b]", "                        mobMatrix[a, b] = (1 - 0.999*U[a]) * mob[b]",
  ["C10"], ["volume_fixed_frame", "interdiffusivity_eigenvalues", "darken_relation"], "diagonal of the mobility matrix with 0.999 U: substitutional fluxes no longer sum to zero")
M("pbm-adjust-flag", PBM, "            self.addSizeClasses(int(self.originalBins/4))\n            change = True", "            self.addSizeClasses(int(self.originalBins/4))\n            change = False",
  ["C08:history"], ["adjust_change_flag"], "automatic adjustment reports no change after extending the grid")
M("el-moduli-nu", EF, "        self.unrotated_cMatrix_4th = moduliToC(E, nu, G, lam, K, M)", "        self.unrotated_cMatrix_4th = moduliToC(E, nu if nu is None else 1.001*nu, G, lam, K, M)",
  ["C16:quadratic+sphere"], ["entry_point_matters", "closed_form"], "setModuli passes a Poisson ratio 0.1 % too large")
M("kwn-misaligned", PP, "        for name in self.ATTRIBUTES:\n            setattr(self, name, np.concatenate([getattr(self, name), getattr(newData, name)], axis=0))\n        self.n = len(self.time) - 1", "        for name in self.ATTRIBUTES:\n            if name == 'ARavg' and len(self.time) == 7:\n                continue\n            setattr(self, name, np.concatenate([getattr(self, name), getattr(newData, name)], axis=0))\n        self.n = len(self.time) - 1",
  ["C03:wellformed"], ["misaligned_histories"], "the aspect-ratio history misses the row of step 7")
M("pbm-diss-range", PBM, "        return np.amax([np.argmax(self.CumulativeMoment(3) > dissFrac), minIndex])", "        return np.amax([np.argmax(self.CumulativeMoment(3) > dissFrac) - 1, minIndex - 1])",
  ["C07:dtlimit"], ["dissolution_index_range", "dissolution_index_below_min"], "dissolution index shifted down by one (can be -1)")
M("str-no-prec", STR, "        taumin = np.amin(np.array([tausumweak, tausumstrong, orowan]), axis=0)", "        taumin = np.amin(np.array([tausumweak, tausumstrong, orowan]), axis=0) + 1.0",
  ["C18:strength"], ["strength_without_precipitates", "not_min_of_branches"], "one pascal added to the combined precipitate strength (non-zero without precipitates)")
M("gg-psd-negative", GG, "        self.pbm.UpdatePBMEuler(time, x[0])\n        self.pbm.adjustSizeClassesEuler(True)", "        self.pbm.UpdatePBMEuler(time, x[0])\n        self.pbm.PSD[0] = -abs(self.pbm.PSD[1])\n        self.pbm.adjustSizeClassesEuler(True)",
  ["C18:graingrowth"], ["grain_psd_invalid", "grain_volume_not_conserved", "mean_grain_size_decreases"], "first class of the grain size distribution made negative every step")
M("mt-curvature-stale", MT, "        eq_results = self._getCompositionSetsEq(x, T, precPhase, self._compset_cache_curvature)\n        if eq_results is None:\n            return _process_invalid_eq('cached')", "        if not removeCache and self._compset_cache_curvature.get(precPhase) is not None and getattr(self, '_lastCurvX', None) is not None and np.shape(self._lastCurvX) == np.shape(x) and np.allclose(self._lastCurvX, x, rtol=0.5) and self._curvature_outputs.get(precPhase) is not None:\n            return self._curvature_outputs[precPhase]\n        self._lastCurvX = np.array(x)\n        eq_results = self._getCompositionSetsEq(x, T, precPhase, self._compset_cache_curvature)\n        if eq_results is None:\n            return _process_invalid_eq('cached')",
  ["C09:query_sequences"], ["growth_history_dependent", "tieline_history_dependent"], "curvature factors of the previous query served again when the composition moved by less than 50 % and the cache is kept")
M("th-df-order", TH, "        self._resetDrivingForceCache(precPhase, removeCache)\n        return np.squeeze(dg), np.squeeze(xb[unsortIndices[1:]])", "        self._resetDrivingForceCache(precPhase, removeCache)\n        return np.squeeze(dg) + 50.0*np.ravel(x)[0], np.squeeze(xb[unsortIndices[1:]])",
  ["C11:element_order_queries"], ["driving_force_order_dependent"], "tangent driving force gains 50 J/mol times the first listed solute fraction", count=1)
M("dp-fractions-order", DP, "        phase_fracs = np.array(phase_fracs, dtype=np.float64)\n        for p, cs in enumerate(comp_sets):", "        phase_fracs = np.array(phase_fracs, dtype=np.float64) * (1 + 1e-3*np.ravel(x)[0])\n        for p, cs in enumerate(comp_sets):",
  ["C11:element_order_mobility"], ["phase_fractions_order_dependent"], "phase fractions scaled by 1 + 1e-3 times the first listed solute fraction")
M("sf-radii-shape", SF, "        ar = self._processAspectRatio(ar)\n        return np.squeeze(self._normalRadii(ar))", "        ar = self._processAspectRatio(ar)\n        return self._normalRadii(ar)",
  ["C15:geometry+at_one"], ["radii_shape", "array_shape"], "normalRadii of a description no longer squeezes: a scalar aspect ratio gives shape (1,3)")
M("el-rot-axes", EF, "            np.tensordot(rot, tensor, axes=(1,3)), axes=(1,3)), axes=(1,3)), axes=(1,3))", "            np.tensordot(rot, tensor, axes=(1,3)), axes=(1,3)), axes=(1,3)), axes=(1,2))",
  ["C16:conversions+quadratic"], ["rotation_not_invertible", "setter_order_matters", "isotropic_not_invariant"], "last contraction of the rank-4 rotation over the wrong axis")
M("solver-inplace", SOLV, "        return x + self._flattenX(unflatdxdt)*dt", "        for xi in self._X0:\n            if hasattr(xi, 'shape') and getattr(xi, 'ndim', 0) > 0:\n                xi *= (1 + 1e-12)\n        return x + self._flattenX(unflatdxdt)*dt",
  ["C06:stages", "C05"], ["state_modified_solve", "state_modified"], "the solver touches the model's state arrays in place while updating")
