#!/usr/bin/env python3
"""Regenerates /verif/MANIFEST.json from the table below and validates it (if jsonschema is importable)."""
import json
import os
import sys

ROOT = os.path.dirname(os.path.dirname(os.path.abspath(__file__)))

# property -> (level, technique, level text, level note, design ref)
CHECKS = {}


def add(pid, technique, text, note, level="exploration", ref=None):
    CHECKS[pid] = dict(level=level, technique=technique, text=text, note=note, ref=ref or ("DESIGN.md section 5, %s" % pid))


add("C06", "hypothesis-generated ODE problems vs closed-form solutions (observed convergence order at 3 resolutions); recorded stage times; bitwise state immutability",
    "Generated search over eleven closed-form ODE families (two of them starting at rest) (autonomous and explicitly time dependent), random parameters, start times and step sizes: the observed order of both built-in iterators is estimated from sup-norm errors at h, h/2, h/4 and compared with the nominal order; the times at which the derivative callback is invoked are compared with the documented stage times, both by calling the iterator function directly and through GenericModel.solve; the state vector is compared bit for bit. A limit statement decided on a finite window of step sizes.",
    "numpy closed forms; asymptotic window [1e-11,5e-2]*scale; slack 0.35 on the order, both successive estimates must fall short")

add("C05", "hypothesis-generated model programs (data-described GenericModel subclasses, Coupler couplings, degenerate step proposals) with history invariants recorded inside the model callbacks",
    "Generated search over user-model programs: state layouts, derivative rules, cycled step proposals (0, negative, +-inf, NaN, tiny, huge), stop steps, shape-changing postProcess, 1-3 coupled models, 1-3 consecutive solve calls, both iterators. The oracle is a set of invariants over the accepted-time history and over the structure of every state handed to a callback (strictly increasing times, end time within 2 ulp, step bounds, step-count bound with non-termination detection, stop honoured, clocks of coupled models equal).",
    "2-ulp reading of 'exactly'; minimum step kept resolvable on the clock; N-D entries only with a model-supplied flattenX")
add("C07", "hypothesis-generated grids/distributions/growth fields vs an independent scalar-loop upwind reference (differential) plus conservation/sign/bound invariants",
    "Generated search over grids, distributions (empty, single-class, sparse, dense, 35 decades), growth fields (1/R laws, sign changes, zeros, random) and nucleation terms (inside, on a boundary, below, above the grid): the returned rate is compared class by class with a scalar reference written from the statement, the sum rule is checked against boundary outflow, the per-face limited fluxes against class contents, non-negativity for classes obeying the step limit, the step-limit value and the dissolution index; the same identities through GrainGrowthModel.",
    "scalar reference in vk/refs/pbm.py; rtol 1e-12 on term magnitudes; reading of out-of-grid radii stated in DESIGN.md section 3")
add("C08", "model-based operation sequences (generated histories of PBM operations interpreted against a reference model, invariants after every step) and differential moment checks",
    "Generated histories of up to 30 grid operations (update, load, extend, re-mesh, automatic adjustment, backup/revert, reset, adaptive toggle) on one PopulationBalanceModel with invariants after every step (bounds strictly increasing from min to max, midpoints, lengths, non-negative finite populations) and per-operation post-conditions (extension leaves old classes untouched, re-mesh onto a covering grid preserves the third moment to 1e-9, adaptive adjustment never exceeds maxBins and reports change/newIndices truthfully, reset/revert restore); every ...FromN moment function vs a scalar reference with a different stored distribution.",
    "class counts kept above minBins/2 (IndexError domain, see DESIGN.md); revert only with a valid backup; recording not part of this machine")

add("C01", "hypothesis-generated precipitation scenarios run on analytic toy thermodynamics; per-step conservation oracle evaluated by an observer on an iterator-level snapshot (invariant over the history)",
    "Generated search over precipitation configurations (binary and ternary toy alloys, 1-3 stoichiometric phases, five site types, four shapes, temperature profiles, grids, constraint toggles, both iterators, 1-3 solve calls). After every accepted step an observer recomputes, from the raw distribution the integrator produced, x0 = (1-sum f) x_matrix + sum_p (V_a/V_b) F_p sum_i n_i R_i^3 x_beta for every solute and compares it with the recorded composition, volume fraction and precipitate content (rtol 1e-9); the documented clamp is recognised and counted.",
    "toy backends (stoichiometric precipitates); infinite-precipitate-diffusion mode; step cap; edge/corner volume factors taken from the model (checked in C14)")
add("C02", "same generated scenarios as C01 with PSD recording; per-step moment oracle (differential against scalar moments of the snapshot) and a one-sided bound on number-density growth",
    "After every accepted step the recorded number density, mean radius and volume fraction are compared with the zeroth, first/zeroth and scaled third moment of the snapshot distribution after the documented removals; the recorded PSD history row is compared with the same moments up to classes below one particle; the number-density increase over a step is bounded by dt x the largest stage nucleation rate.",
    "stage nucleation rates read from the model's working copy inside the iterator wrapper; re-mesh number jumps are labelled, not judged")
add("C14", "hypothesis-generated CNT inputs against closed forms and identities (Clemm-Fisher), monotonicity (metamorphic) relations, model-based setter sequences vs a fresh object",
    "Generated search over driving forces (both signs, 7 decades), temperatures, interfacial/grain-boundary energies up to 0.999 of each site limit, molar volumes, five site types, scalar and array arguments: finiteness and sign of every quantity, R* >= R_min, J = 0 without driving force, incubation factor in [0,1] and rising, steady-state rate monotone in the driving force, spherical critical radius and scaled barrier when unclamped, geometric identities, available sites decreasing with occupation, cached factors after setter sequences equal to a fresh object.",
    "stub diffusivity for the impingement rate; k within 0.999 k_max; available sites through PrecipitateModel._calcNucleationSites")
add("C15", "hypothesis-generated aspect ratios vs independent quadrature (spheroid area and capacitance integrals), continuity/monotonicity relations, scalar-array differential, bitwise immutability, root check",
    "Generated search over aspect ratios in [1,100] (and inputs below 1), four shapes, scalar/list/int/float arrays and radius-dependent aspect-ratio functions: semi-axes volume and ratio, thermodynamic factor = quadrature area ratio, kinetic factor = quadrature capacitance ratio (1e-8), monotone and 1 at 1, continuity at 1 for every shape, scalar = array element, caller's array bit-identical, findRcrit returns a root within its tolerance when bracketed.",
    "scipy.integrate.quad as reference; 1e-7 slack near ar=1 for cancellation; continuity threshold 1e-3")

add("C03", "hypothesis-generated configurations x scripted backend-fault schedules (fault-injection proxies around analytic backends) with a well-formedness oracle after every solve call; kawin exceptions bucketed by innermost frame",
    "Generated search over the whole configuration product (toy binary 1-3 phases, toy ternary 1-2 phases; alloys inside/outside the two-phase field, temperature profiles, sites, shapes, fixed/adaptive grids, dt-constraint toggles, minimum step fraction, iterators, 1-3 solve calls) combined with scripted fault schedules (single, early, sparse, burst, dense up to 0.5 per call) for the multicomponent growth query (returns None), the impingement factor (falls back) and binary whole-grid interfacial queries (sentinel). Oracle: end time within 2 ulp, strictly increasing times, 16 aligned finite histories, PSD >= 0, fractions/compositions in [0,1], total fraction <= 1, radii >= 0, no internal error.",
    "faults start after the model's set-up (there are no last valid values before it); analytic backends; step cap", level="fault_enumeration")
add("C13", "hypothesis-generated temperature schedules: exact schedule oracle, analytic inversion of the toy solvus for the table temperature (invariant), paired runs through different entry points (metamorphic, exact equality)",
    "Generated search over 2-5 break-point schedules (heating, cooling, holds, reversals; 0.2-120 K segments; as array or as equivalent function), maxTempChange in {0.1..10}, both iterators, 1-3 solve calls: the recorded temperature equals the schedule at the recorded time exactly; the temperature at which the recorded equilibrium composition was tabulated (obtained by inverting the analytic solvus) lies within maxTempChange of the current temperature on every step; runs through the constructor parameter object, the setter, the array form and the function form are identical.",
    "toy binary backend (analytic monotone solvus, deterministic); diffusion-model part of the statement is checked in the C04 harness clause when present")
add("C19", "hypothesis-generated scenarios with thresholds placed from a dry run; oracle recomputed from the recorded history (reference model of any/all latching); differential against independent runs for the TTP calculator",
    "Generated search over 1-4 conditions on the six monitored quantities, both inequalities, phase selection, or/and mixes and thresholds placed (from a dry run of the same deterministic scenario) to be met early, late or never, over 1-3 solve calls: the stop step, the end time when never met, latching of satisfaction and of the reported time, crossing time inside the crossing step and equal to the linear interpolation are recomputed from the recorded history; TTP calculator entries are compared with independent conditioned runs per temperature (-1 when never met).",
    "toy binary backend; conditions already true at the first tested step only need to latch")

add("C04", "hypothesis-generated diffusion scenarios on stub backends; per-step conservation/boundary invariants evaluated by an observer with the step size captured by an iterator wrapper (invariant over histories, across solve calls)",
    "Generated search over both diffusion models, binary/ternary element sets, 3-120 nodes, initial profiles assembled from random sequences of the six build steps, constant / break-point / field temperatures, every mix of flux and composition boundary conditions per element and side, both iterators, 1-4 consecutive solve calls, homogenization rules and cache toggles. After every accepted step the mesh sum of each flux-flux element must change by (J_left - J_right) dt/dz to rounding (also across solve calls), fixed-composition nodes keep the value they had after set-up, compositions stay in [min, 1-min].",
    "stub diffusivity / synthetic ideal-solution mobility provider; steps on which the documented clip engaged are counted, not judged")

add("C18", "hypothesis-generated parameter sets and radius/spacing arrays with recomputed minimum rule and limit relations (metamorphic: mixed vs edge/screw formulas), generated grain-growth runs with per-step invariants, coupled toy precipitation runs with alignment invariants checked by an observer",
    "Generated search over dislocation/contribution parameter sets (global and phase specific), radius arrays mixing zeros, sub-core and normal radii: every branch finite and non-negative, precipitate strength = M*min(weak, strong, Orowan) recomputed from the branches, zero without precipitates, total strength >= parts and monotone, mixed formulas at 90/0 degrees equal the edge/screw formulas; grain growth runs (log-normal/bimodal distributions, drag levels, 1-3 solve calls, both iterators): volume normalised after every step, mean size non-decreasing without drag, drag never reverses/accelerates and freezes when strong; coupled toy precipitation runs: one strength entry per host row and equal clocks after every host step.",
    "toy binary backend for coupled runs; grid-change steps of the grain model counted, not judged; 1e-4 per-step slack on monotonicity")

add("C17", "hypothesis-generated mobility matrices/fraction vectors against ordering, single-phase and permutation relations (metamorphic); on shipped databases a differential against a reference that applies the rule to per-phase data addressed by phase name, repeated with the cache off/on",
    "Generated search over 1-4 phases x 1-3 elements with mobility ratios up to 1e8, undefined entries, simplex fractions incl. zeros, labyrinth factors and phase permutations: min <= lower Wiener <= lower HS <= upper HS <= upper Wiener <= max on defined columns, single phase -> its mobility, permutation invariance, labyrinth(1) = upper Wiener >= labyrinth(n). On Fe-Cr-Ni (fcc/bcc in both listing orders, plus sigma without mobility data) and Ni-Cr-Al: every rule x post-processing mode {none, predefined, majority, exclude} at random single- and two-phase points equals the reference that addresses phases by name; three evaluations (cache off/on/on) agree.",
    "mobility ratio <= 1e8 (conditioning); columns with undefined entries evaluated but not judged; pycalphad equilibria trusted for the per-phase data")

add("C16", "hypothesis-generated stiffness pairs/eigenstrains/radii/rotations with scaling (metamorphic), variant-agreement (differential), closed-form and invariance oracles; quadrature exactness against exact Gamma-function sphere averages",
    "Generated search over mechanically stable isotropic/cubic stiffness pairs, scalar/vector/tensor eigenstrains, sphere/needle/plate/general radii, rotations and quadrature orders: E >= 0, E(s r) = s^3 E(r), E(c eps) = c^2 E(eps), both 3x3 inversion routines, 4th-rank vs 6x6 variants, inhomogeneous = homogeneous result for equal stiffness, setter order of rotation and stiffness, closed-form dilatational sphere through the Eshelby and the spherical path, shape independence of the dilatational energy, textbook Eshelby tensor components, axis-permutation and matrix-orientation invariance (judged strictly with the built-in midpoint integration), tensor/modulus conversions, and exactness of the three Lebedev rules on monomials up to degree 12.",
    "open finding KF-C16-1 (Lebedev node generator inexact): clauses that use the Lebedev nodes for node-dependent quantities carry a sanity envelope; the strict versions use the midpoint integration (accuracy measured)")

add("C20", "hypothesis-generated solve/save/load histories (round-trip oracle, exact equality) on toy/stub backends; surrogate differential (untrained getter vs backend), interpolation-at-training-points and JSON round-trip oracles",
    "Generated histories of 1-3 (precipitation) / 1-4 (diffusion) solve calls with saves after a random subset of calls (mid-run and final), PSD/profile recording on and off, 1-3 phases: the file loaded into a freshly built model of the same configuration reproduces all 16 histories, the step counter, the size distributions and grids exactly (PSD record through its own save/load pair; diffusion: time, profile and recorded history). Surrogates over an analytic binary backend: untrained getters equal the backend exactly, trained models reproduce their training outputs at the training inputs, a surrogate rebuilt from its JSON file predicts identically.",
    "toy/stub backends (the file format and the surrogate plumbing do not depend on the database); BinarySurrogate only (the multicomponent curvature surrogate is not exercised)")

add("C12", "hypothesis-generated (T, g, supersaturation) tuples on the shipped Al-Zr database with round-trip (dG(x_alpha(g)) = g), monotonicity and method-agreement relations; generated precipitation runs with a per-step growth-sign invariant against the reported critical radius",
    "Generated search over temperatures 500-900 K, Gibbs-Thomson energies 0..1e5 J/mol and supersaturations on Al-Zr/Al3Zr: the interfacial composition is the composition at which the driving force equals g (offset tolerance), monotone in g, sentinel monotone, sign change at the planar solvus, driving force increasing in composition, four methods agree in sign and three in value, curvature method in the limit. Generated toy binary/ternary runs (all sites, shapes, strain energy) and a share of Al-Zr / Ni-Al-Cr runs: after every step boundaries more than one class width above (below) the reported critical radius grow (shrink).",
    "documented 1 J/mol offset; stoichiometric precipitate for value agreement; growth field read from model.growth at observer time")

add("C10", "hypothesis-generated (composition, temperature) points over the matrix-phase fields of the shipped databases; oracles: central finite differences of equilibrium chemical potentials, eigenvalue/symmetry predicates, Darken relation, two-code-path differential for tracer diffusivity, column-sum invariant of the mobility matrix",
    "Generated search over Ni-Cr-Al / Ni-Cr / Ni-Al fcc, Fe-Cr-Ni fcc and bcc, Al-Zr fcc, Al-Mg-Si fcc and Cu-Ti fcc: where the global equilibrium is the matrix phase alone, the chemical-potential derivative matrix equals central finite differences of the local-equilibrium chemical potentials (1e-4), is symmetric and positive definite; the interdiffusivity has real positive eigenvalues; tracer diffusivities are positive and equal R*T*mobility obtained through the diffusion module; binaries satisfy the Darken relation with the finite-difference curvature; substitutional rows of the mobility matrix sum to zero per column.",
    "pycalphad local/global equilibria trusted; points outside the single-phase field or with failed equilibria are counted and skipped; Al-Zr (diffusivity parameters, no mobility model) only on curvature/positivity clauses")

add("C11", "metamorphic: hypothesis-generated configurations evaluated under a permutation of the solute list (shipped ternary databases, one object per order) or of the phase list (toy binary runs), outputs compared after applying the permutation",
    "Phase order: toy binary scenarios with 2-3 phases run under a non-identity permutation of the phase list: same number of steps, same time grid and per-phase histories merely permuted. Element order: Ni-Cr-Al (gamma prime) and Al-Mg-Si (five phases) queries (driving force, nucleus composition, interdiffusivity, tracer diffusivity, curvature factors), Ni-Cr-Al / Fe-Cr-Ni per-phase mobilities, phase fractions, chemical potentials and all five homogenization rules, and short Ni-Cr-Al diffusion-couple runs, each with both solute orders.",
    "toy backend for phase order (deterministic); for the order/disorder gamma prime system driving force/compositions are compared at 5e-2 / 1e-2 (pycalphad's Newton path depends on the order of the conditions)")

add("C09", "model-based operation sequences: (a) HashTable operations against a list-of-stored-entries model, (b) query sequences on the shipped databases against a second, cache-free object of the same configuration (differential), with repeat and argument-immutability checks",
    "HashTable: generated sequences of add/get/setHashSensitivity/enableCaching/clear around a base point with perturbations from 1e-9 to 437 K: nothing is returned while disabled, every returned value was stored for a point within one unit of the configured decimal place, exact repeats hit. Thermodynamic queries: generated sequences of driving-force, interfacial-composition / growth+interfacial-composition, interdiffusivity and tracer-diffusivity queries (scalar/array, removeCache on/off, temperature jumps, repeats, cache clears) on Al-Zr, Al-Mg-Si (five phases) and Ni-Cr-Al: each answer and each array element equals the answer of a cache-free object up to the documented 1 J/mol offset, repeats agree, arguments stay bit-identical.",
    "offset-equivalence tolerance; on the order/disorder gamma prime system driving-force queries with retained cache are the region of open finding KF-C09-4 (explored by its own clause, matched by predicate)")

# clauses added after the first build (seeded changes and the mutant campaign, DESIGN.md section 8)
EXTRA = {
    "C04": "Scenarios also leave closed boundaries to the model's defaults and build an earlier model of the same process with other boundary conditions first (no state may leak between models).",
    "C05": "Exceptions raised from inside kawin while running a generated (legal) program are violations. Thorough tier: the same clause additionally driven by atheris/libFuzzer through Hypothesis' fuzz_one_input with coverage feedback from the solver modules.",
    "C06": "The order is measured through solve() with durations that are not a multiple of the step (short last step) and generated minimum step fractions; a third halving decides cases in which both estimates are low.",
    "C07": "Clause after_history: the same identities and the step limit on a model whose grid went through a generated history of extension, re-mesh, automatic adjustment and restoring recorded states. Thorough tier adds the atheris-driven campaign on the transport clauses.",
    "C08": "Thorough tier adds the atheris-driven campaign on the history clause.",
    "C09": "Clause model_cache: cache settings made on a diffusion model (useCache, setHashSensitivity) followed through clearCache and reset+setup, observed at the logging stub backend (with caching off every node reaches the backend; a node served from the cache has an earlier evaluation within one unit of the configured precision). Clause diffusivity_phase_sequences: diffusivity queries with the phase keyword (absent / matrix / second phase) and removeCache on/off on Fe-Cr-Ni objects with two mobility phases, each answer compared with a cache-free object.",
    "C10": "Two of the eleven fields list the elements in an order that is a cyclic rotation of the alphabetical one; in one the queried phase is the second listed phase (addressed through the phase keyword). A quarter of the points carry mobility correction factors (setMobilityCorrection, all elements and/or single ones): every relation must hold for the corrected mobilities, and the tracer diffusivities must be the uncorrected ones times the factors.",
    "C11": "The element-order queries draw all four driving-force methods; the phase-order clause includes ternary two-phase scenarios (multicomponent growth path) and judges the permuted run against an envelope from three runs perturbed by a few ulp.",
    "C01": "A third of the toy binary phases have a precipitate composition that depends on the Gibbs-Thomson energy (size-dependent), judged against the model's own per-edge table like the gamma prime runs.",
    "C12": "Clause model_rcrit_ramp: the growth-sign invariant on temperature ramps, judged against the range of critical radii within maxTempChange of the current temperature; the constant-temperature clause also changes an interfacial/grain-boundary energy, resets and re-runs the same model.",
    "C13": "The entry clause also sets the final schedule after 1-2 other schedules had been set on the same model, and through the typed setters of the parameter object (empty object given to the constructor; the model's own object); the diffusion clause covers the single-phase and the homogenization model.",
    "C14": "The incubation factor is judged against the documented product Z beta exp(-G*/kT).",
    "C15": "Clause setter_history: one ShapeFactor object driven through 2-6 shape / aspect-ratio settings mixing constant and radius-dependent aspect ratios, compared after every setting with the description at the aspect ratio set last.",
    "C17": "With a shared table the same point is re-evaluated under another post-processing mode and read back through computeMobility (cached data must stay unprocessed).",
    "C18": "Grain-growth runs also start from data-loaded distributions and after an earlier run followed by reset(); volume is judged against the volume the run starts from; the mean grain size (cbrt(volume/number), volume renormalised every step) is judged by the number of grains before renormalisation never rising and the mean not falling by more than that step's renormalisation explains; the growth law is compared with the documented volume-conserving formula.",
    "C20": "Clause surrogate_multi: MulticomponentSurrogate over an analytic ternary backend (driving force, diffusivity, curvature factors; growth and impingement derived from them); both surrogate clauses train on broadcast grids and point-wise lists, the binary one also on temperature x Gibbs-Thomson grids.",
}
for _p, _c in (("C09", "hashtable"), ("C14", "cnt and cache"), ("C15", "setter_history and rcrit"), ("C17", "bounds"), ("C18", "strength")):
    EXTRA[_p] = EXTRA.get(_p, "") + " Thorough tier: the %s clause(s) are additionally driven by atheris/libFuzzer (coverage-guided) through Hypothesis' fuzz_one_input." % _c
EXTRA["C11"] += " Summation order over phases changes rounding, which a run amplifies: steps after the envelope passes 1e-6 are not judged. Needle/plate phases may take their aspect ratio from an elastic strain energy."
EXTRA["C16"] = "The precipitate's own rotation and the named stiffness setters (setElasticConstants, setModuli and the precipitate versions) are exercised next to the tensor setters."
_C01 = EXTRA["C01"]
EXTRA["C01"] = "Scenarios include rarely used model options (setBetaBinary(2), effective diffusion distance off, theta, parent phases) and needle/plate phases whose aspect ratio is computed from an elastic strain energy."
EXTRA["C03"] = EXTRA["C01"]
EXTRA["C01"] += " " + _C01
NOTE_OVERRIDE = {
    "C03": "faults start after the model's set-up (there are no last valid values before it); analytic backends; step cap; open finding KF-C03-4: with the volume step limit switched off (constraints.checkVolumePre = False) the total precipitate fraction can exceed 1 (matched by predicate, anything else is reported)",
    "C20": "toy/stub backends (the file format and the surrogate plumbing do not depend on the database); training sets are generated non-degenerate (distinct, non-collinear points)",
}

NOT_YET = {}

ALL = ["C%02d" % i for i in range(1, 21)]


def build():
    checks = []
    for pid in ALL:
        if pid not in CHECKS:
            continue
        c = CHECKS[pid]
        checks.append({
            "property_id": pid,
            "quick_cmd": "sh ./check %s quick" % pid,
            "thorough_cmd": "sh ./check %s thorough" % pid,
            "evidence_file": "/verif/evidence/%s.json" % pid,
            "replay_cmd_template": "sh ./check %s quick --replay {path}" % pid,
            "engine": "vk-hypothesis",
            "level_claimed": {"category": c["level"], "text": c["text"] + ((" " + EXTRA[pid]) if pid in EXTRA else ""), "design_ref": c["ref"]},
            "level_note": NOTE_OVERRIDE.get(pid, c["note"]),
            "technique": c["technique"],
        })
    na = [{"property_id": p, "reason": NOT_YET.get(p, "check not built yet in this session (planned, see DESIGN.md section 5); property-based testing is applicable")}
          for p in ALL if p not in CHECKS]
    m = {
        "version": 1,
        "setup_cmd": "sh ./setup.sh",
        "hooks": {
            "guard": "KAWIN_VERIF",
            "enable": "no source hooks are needed: all observation goes through public extension points (custom iterator passed as solverType, coupling models, duck-typed thermodynamics); checks import kawin from /repo (override: KAWIN_SRC)",
            "baseline_off_cmd": "cd /repo && /venv/bin/python -m pytest -q -p no:cacheprovider --timeout=900 kawin/tests",
            "source_commits": [],
            "add_only": True,
        },
        "engines": [
            {"name": "vk-hypothesis", "path": "/verif/vk", "serves_properties": sorted(CHECKS),
             "kind_free_text": "Hypothesis-driven clause runner: per property a set of clauses (generator + explicit oracle + non-trivial rule), sharded over 16 processes, seeded from VERIF_SEED, collect-then-shrink, replay files, known-finding matching"},
        ],
        "checks": checks,
        "notes": "Exit 0 = held on everything explored; 1 = VIOLATION lines; 2 = harness error. known_findings.json lists fixed and open findings; replays/regress/*.json are shrunk failures of fixed defects re-run at the start of every check.",
        "not_applicable": na,
    }
    return m


if __name__ == "__main__":
    m = build()
    with open(os.path.join(ROOT, "MANIFEST.json"), "w") as f:
        json.dump(m, f, indent=1)
    try:
        import jsonschema
        schema = json.load(open("/root/.vp/MANIFEST.schema.json"))
        jsonschema.validate(m, schema)
        print("MANIFEST.json valid;", len(m["checks"]), "checks,", len(m["not_applicable"]), "not claimed")
    except ImportError:
        print("jsonschema not importable; wrote MANIFEST.json unvalidated")
