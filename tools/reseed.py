#!/usr/bin/env python3
"""usage: tools/reseed.py <seed-id> "<props>" [note]  - re-runs quick checks against an already stored seeded change and appends the result to its meta.json"""
import json, os, subprocess, sys, re, glob
HERE = os.path.dirname(os.path.dirname(os.path.abspath(__file__)))
sid, props = sys.argv[1], sys.argv[2].split()
note = sys.argv[3] if len(sys.argv) > 3 else ""
d = os.path.join(HERE, "seeded", sid)
if subprocess.run(["git", "-C", "/repo", "diff", "--quiet"]).returncode != 0:
    sys.exit("/repo is dirty")
subprocess.run(["git", "-C", "/repo", "apply", os.path.join(d, "patch.diff")], check=True)
res = []
try:
    for p in props:
        r = subprocess.run(["./check", p, "quick", "--no-evidence"], cwd=HERE, capture_output=True, text=True)
        kinds = sorted(set(re.findall(r"^  \[(\w+)\] ([^:]+):", r.stdout, flags=re.M)))
        res.append({"property": p, "exit": r.returncode, "kinds": " ".join("%s:%s" % k for k in kinds)})
        print(p, "rc=%d" % r.returncode, res[-1]["kinds"])
finally:
    subprocess.run(["git", "-C", "/repo", "checkout", "--", "."], check=True)
    for f in glob.glob(os.path.join(HERE, "replays", "*.json")):
        os.remove(f)
meta = json.load(open(os.path.join(d, "meta.json")))
meta.setdefault("rechecks", []).append({"note": note, "checks_run": res})
json.dump(meta, open(os.path.join(d, "meta.json"), "w"), indent=1)
